#!/bin/bash
# usage: tools/killsim.sh [all]   — kills the simulator processes of checks against /repo (build/ws-8363075089) and their
# driver; with "all" every haysim/nssim process (also those of vp runs and scratch copies). Never use pkill -f from the tool.
pat="/verif/build/ws-8363075089/"
[ "${1:-}" = "all" ] && pat="/build/ws-"
for p in $(ps -eo pid,args | grep -E "(haysim|nssim)" | grep "$pat" | grep -v grep | awk '{print $1}'); do kill -9 $p 2>/dev/null; done
for p in $(ps -eo pid,args | grep "python3 ./verif check" | grep -v grep | awk '{print $1}'); do
  cwd=$(readlink /proc/$p/cwd 2>/dev/null)
  if [ "$cwd" = "/verif" ] || [ "${1:-}" = "all" ]; then kill -9 $p 2>/dev/null; fi
done
sleep 1
ps -eo pid,args | grep -E "(haysim|nssim)" | grep "$pat" | grep -v grep | wc -l

#!/bin/bash
for p in $(ps -eo pid,comm | awk '$2=="haysim" || $2=="nssim" {print $1}'); do kill -9 $p; done
for p in $(ps -eo pid,cmd | grep "verif check" | grep -v grep | awk '{print $1}'); do kill -9 $p; done
sleep 1
ps -eo pid,comm | awk '$2=="haysim" || $2=="nssim"' | wc -l

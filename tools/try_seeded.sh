#!/bin/bash
# usage: tools/try_seeded.sh <seeded-dir-with-patch.diff> <PROP> [tier]
# Applies the seeded change to /repo, runs the property's check, and always reverts /repo.
set -u
dir=$1; prop=$2; tier=${3:-quick}
cd /verif
if ! git -C /repo diff --quiet; then echo "refusing: /repo has uncommitted changes"; exit 2; fi
git -C /repo apply "$dir/patch.diff" 2>/dev/null || (cd /repo && patch -p1 -F3 -s --no-backup-if-mismatch < "$dir/patch.diff") || { echo "patch does not apply"; git -C /repo checkout -- .; exit 2; }
trap 'git -C /repo checkout -- . ; git -C /repo status --short | grep -v "^??" ' EXIT
timeout 1800 ./verif check "$prop" --tier "$tier" 2>&1 | tail -12
echo "exit=${PIPESTATUS[0]}"

#!/bin/bash
# usage: tools/confirm_seeded.sh <scratch-worktree> <dir with patch.diff + demo.rs>
# Confirms independently, in a scratch worktree of /repo (never /repo itself):
#   (1) with the patch the full existing test suite passes, (2) the demo fails with the patch, (3) the demo passes without it.
set -u
wt=$1; d=$2
export CARGO_NET_OFFLINE=true
cd "$wt" || exit 2
git checkout -q -- . ; rm -f tests/seeded_demo.rs
git apply "$d/patch.diff" || { echo "RESULT $(basename $d) patch-does-not-apply"; exit 1; }
suite=$(timeout 1500 cargo test --workspace --no-fail-fast --offline -j 5 2>&1 | grep -E "^test result" | awk '{p+=$4; f+=$6} END {print p" passed "f" failed"}')
cp "$d/demo.rs" tests/seeded_demo.rs
timeout 600 cargo test --offline -j 5 --test seeded_demo >/tmp/confirm-$(basename $d)-with.log 2>&1; with=$?
git checkout -q -- src
timeout 600 cargo test --offline -j 5 --test seeded_demo >/tmp/confirm-$(basename $d)-without.log 2>&1; without=$?
rm -f tests/seeded_demo.rs
echo "RESULT $(basename $d) suite_with_patch=[$suite] demo_with_patch_exit=$with demo_without_patch_exit=$without"

#!/bin/bash
# usage: tools/try_many.sh <log> <dir:PROP> ...   — runs try_seeded.sh for each pair, sequentially
log=$1; shift
: > "$log"
for pair in "$@"; do
  d=${pair%%:*}; p=${pair##*:}
  echo "=== $(basename $d) $p" >> "$log"
  /verif/tools/try_seeded.sh "$d" "$p" 2>&1 | grep -E "VIOLATION|signature|detail|quick:|error|exit=|KNOWN" | cut -c1-400 >> "$log"
done
echo "ALL DONE" >> "$log"

#!/usr/bin/env python3
"""keep_seeded.py <src SEEDED/<id> dir> <caught_by text> <ran text>: copies patch.diff, demo, meta.json into /verif/seeded/<id>/ and
extends meta.json with what was run here."""
import json, os, shutil, sys
src, caught, ran = sys.argv[1], sys.argv[2], sys.argv[3]
name = os.path.basename(src.rstrip('/'))
dst = os.path.join('/verif/seeded', name)
os.makedirs(dst, exist_ok=True)
for f in os.listdir(src):
    shutil.copy(os.path.join(src, f), os.path.join(dst, f))
m = json.load(open(os.path.join(dst, 'meta.json')))
m['breaks_property'] = m.get('property')
m['confirmed_here'] = ran
m['caught_by'] = caught
json.dump(m, open(os.path.join(dst, 'meta.json'), 'w'), indent=1, ensure_ascii=False)
print('kept', dst)

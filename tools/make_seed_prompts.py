#!/usr/bin/env python3
"""make_seed_prompts.py <round> <first-index> [extra-brief-file]
Writes /tmp/agent<round>-prompt-<ID>.txt for the six claimed properties from tools/seed_agent_prompt.tmpl:
the property text (from properties.jsonl), a scratch worktree path /tmp/wt<round>-<id> (create it with
`git -C /repo worktree add --detach /tmp/wt<round>-<id> HEAD`), output directories <ID>-<first-index>..+2, and the
one-line summaries of all earlier seeded changes of that property (seeded/*/meta.json) so that they are not repeated.
Nothing about how /verif checks anything goes into a prompt."""
import json, os, sys
rnd, first = sys.argv[1], int(sys.argv[2])
extra = open(sys.argv[3]).read() if len(sys.argv) > 3 else ""
root = os.path.dirname(os.path.dirname(os.path.realpath(__file__)))
props = {}
for line in open(os.path.join(root, "properties.jsonl")):
    p = json.loads(line)
    props[p["id"]] = p
prev = {}
for d in sorted(os.listdir(os.path.join(root, "seeded"))):
    m = json.load(open(os.path.join(root, "seeded", d, "meta.json")))
    prev.setdefault(m["property"], []).append(f"- {m['summary'][:170]} (files: {', '.join(m.get('files', []))})")
tmpl = open(os.path.join(root, "tools", "seed_agent_prompt.tmpl")).read()
for pid in ["C03", "C09", "C11", "C14", "C17", "C18"]:
    p = props[pid]
    q = p.get("quantifier", {})
    q = q.get("text", q) if isinstance(q, dict) else q
    anchors = p.get("anchors", {})
    anchors = ", ".join(anchors.get("files", [])) if isinstance(anchors, dict) else ", ".join(map(str, anchors))
    text = (f"Property {pid}: {p.get('title', '')}\n\nStatement: {p.get('statement', '')}\n\nQuantifier: {q}\n\n"
            f"Why the existing tests cannot settle it: {p.get('why_tests_cant', '')}\n\nAnchored in files: {anchors}")
    t = tmpl.replace("@WT@", f"/tmp/wt{rnd}-{pid.lower()}").replace("@ID@", pid).replace("@PROP@", text)
    t = t.replace("For EACH change i in 1..3", f"For EACH change i in {first}..{first + 2}")
    t += "\n\n" + extra + "\nEarlier changes (do not repeat or closely vary):\n" + "\n".join(prev.get(pid, [])) + "\n"
    out = f"/tmp/agent{rnd}-prompt-{pid}.txt"
    open(out, "w").write(t)
    print(out, len(t))

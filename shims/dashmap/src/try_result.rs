/// Represents the result of a non-blocking read from a [DashMap](crate::DashMap).
#[derive(Debug)]
pub enum TryResult<R> {
    /// The value was present in the map, and the lock for the shard was successfully obtained.
    Present(R),
    /// The shard wasn't locked, and the value wasn't present in the map.
    Absent,
    /// The shard was locked.
    Locked,
}

impl<R> TryResult<R> {
    /// Returns `true` if the value was present in the map, and the lock for the shard was successfully obtained.
    pub fn is_present(&self) -> bool {
        matches!(self, TryResult::Present(_))
    }

    /// Returns `true` if the shard wasn't locked, and the value wasn't present in the map.
    pub fn is_absent(&self) -> bool {
        matches!(self, TryResult::Absent)
    }

    /// Returns `true` if the shard was locked.
    pub fn is_locked(&self) -> bool {
        matches!(self, TryResult::Locked)
    }

    /// If `self` is [Present](TryResult::Present), returns the reference to the value in the map.
    /// Panics if `self` is not [Present](TryResult::Present).
    pub fn unwrap(self) -> R {
        match self {
            TryResult::Present(r) => r,
            TryResult::Locked => panic!("Called unwrap() on TryResult::Locked"),
            TryResult::Absent => panic!("Called unwrap() on TryResult::Absent"),
        }
    }

    /// If `self` is [Present](TryResult::Present), returns the reference to the value in the map.
    /// If `self` is not [Present](TryResult::Present), returns `None`.
    pub fn try_unwrap(self) -> Option<R> {
        match self {
            TryResult::Present(r) => Some(r),
            _ => None,
        }
    }
}

#![allow(clippy::type_complexity)]

#[cfg(feature = "arbitrary")]
mod arbitrary;
pub mod iter;
pub mod iter_set;
mod lock;
pub mod mapref;
mod read_only;
#[cfg(feature = "serde")]
mod serde;
mod set;
pub mod setref;
mod t;
pub mod try_result;
mod util;

#[cfg(feature = "rayon")]
pub mod rayon {
    pub mod map;
    pub mod read_only;
    pub mod set;
}

#[cfg(not(feature = "raw-api"))]
use crate::lock::{RwLock, RwLockReadGuard, RwLockWriteGuard};

#[cfg(feature = "raw-api")]
pub use crate::lock::{RawRwLock, RwLock, RwLockReadGuard, RwLockWriteGuard};

use cfg_if::cfg_if;
use core::borrow::Borrow;
use core::fmt;
use core::hash::{BuildHasher, Hash, Hasher};
use core::iter::FromIterator;
use core::ops::{BitAnd, BitOr, Shl, Shr, Sub};
use crossbeam_utils::CachePadded;
use iter::{Iter, IterMut, OwningIter};
pub use mapref::entry::{Entry, OccupiedEntry, VacantEntry};
use mapref::multiple::RefMulti;
use mapref::one::{Ref, RefMut};

pub use read_only::ReadOnlyView;
pub use set::DashSet;
use std::collections::hash_map::RandomState;
pub use t::Map;
use try_result::TryResult;

cfg_if! {
    if #[cfg(feature = "raw-api")] {
        pub use util::SharedValue;
    } else {
        use util::SharedValue;
    }
}

pub(crate) type HashMap<K, V> = hashbrown::raw::RawTable<(K, SharedValue<V>)>;

// Temporary reimplementation of [`std::collections::TryReserveError`]
// util [`std::collections::TryReserveError`] stabilises.
// We cannot easily create `std::collections` error type from `hashbrown` error type
// without access to `TryReserveError::kind` method.
#[non_exhaustive]
#[derive(Clone, PartialEq, Eq, Debug)]
pub struct TryReserveError {}

/// VERIF SHIM: the shard count is a simulator knob instead of `available_parallelism() * 4`.
pub static VERIF_SHARD_AMOUNT: std::sync::atomic::AtomicUsize = std::sync::atomic::AtomicUsize::new(4);

fn default_shard_amount() -> usize {
    VERIF_SHARD_AMOUNT.load(std::sync::atomic::Ordering::Relaxed).max(2).next_power_of_two()
}

fn ncb(shard_amount: usize) -> usize {
    shard_amount.trailing_zeros() as usize
}

/// DashMap is an implementation of a concurrent associative array/hashmap in Rust.
///
/// DashMap tries to implement an easy to use API similar to `std::collections::HashMap`
/// with some slight changes to handle concurrency.
///
/// DashMap tries to be very simple to use and to be a direct replacement for `RwLock<HashMap<K, V>>`.
/// To accomplish this, all methods take `&self` instead of modifying methods taking `&mut self`.
/// This allows you to put a DashMap in an `Arc<T>` and share it between threads while being able to modify it.
///
/// Documentation mentioning locking behaviour acts in the reference frame of the calling thread.
/// This means that it is safe to ignore it across multiple threads.
pub struct DashMap<K, V, S = RandomState> {
    shift: usize,
    shards: Box<[CachePadded<RwLock<HashMap<K, V>>>]>,
    hasher: S,
}

impl<K: Eq + Hash + Clone, V: Clone, S: Clone> Clone for DashMap<K, V, S> {
    fn clone(&self) -> Self {
        let mut inner_shards = Vec::new();

        for shard in self.shards.iter() {
            let shard = shard.read();

            inner_shards.push(CachePadded::new(RwLock::new((*shard).clone())));
        }

        Self {
            shift: self.shift,
            shards: inner_shards.into_boxed_slice(),
            hasher: self.hasher.clone(),
        }
    }
}

impl<K, V, S> Default for DashMap<K, V, S>
where
    K: Eq + Hash,
    S: Default + BuildHasher + Clone,
{
    fn default() -> Self {
        Self::with_hasher(Default::default())
    }
}

impl<'a, K: 'a + Eq + Hash, V: 'a> DashMap<K, V, RandomState> {
    /// Creates a new DashMap with a capacity of 0.
    ///
    /// # Examples
    ///
    /// ```
    /// use dashmap::DashMap;
    ///
    /// let reviews = DashMap::new();
    /// reviews.insert("Veloren", "What a fantastic game!");
    /// ```
    pub fn new() -> Self {
        DashMap::with_hasher(RandomState::default())
    }

    /// Creates a new DashMap with a specified starting capacity.
    ///
    /// # Examples
    ///
    /// ```
    /// use dashmap::DashMap;
    ///
    /// let mappings = DashMap::with_capacity(2);
    /// mappings.insert(2, 4);
    /// mappings.insert(8, 16);
    /// ```
    pub fn with_capacity(capacity: usize) -> Self {
        DashMap::with_capacity_and_hasher(capacity, RandomState::default())
    }

    /// Creates a new DashMap with a specified shard amount
    ///
    /// shard_amount should greater than 0 and be a power of two.
    /// If a shard_amount which is not a power of two is provided, the function will panic.
    ///
    /// # Examples
    ///
    /// ```
    /// use dashmap::DashMap;
    ///
    /// let mappings = DashMap::with_shard_amount(32);
    /// mappings.insert(2, 4);
    /// mappings.insert(8, 16);
    /// ```
    pub fn with_shard_amount(shard_amount: usize) -> Self {
        Self::with_capacity_and_hasher_and_shard_amount(0, RandomState::default(), shard_amount)
    }

    /// Creates a new DashMap with a specified capacity and shard amount.
    ///
    /// shard_amount should greater than 0 and be a power of two.
    /// If a shard_amount which is not a power of two is provided, the function will panic.
    ///
    /// # Examples
    ///
    /// ```
    /// use dashmap::DashMap;
    ///
    /// let mappings = DashMap::with_capacity_and_shard_amount(32, 32);
    /// mappings.insert(2, 4);
    /// mappings.insert(8, 16);
    /// ```
    pub fn with_capacity_and_shard_amount(capacity: usize, shard_amount: usize) -> Self {
        Self::with_capacity_and_hasher_and_shard_amount(
            capacity,
            RandomState::default(),
            shard_amount,
        )
    }
}

impl<'a, K: 'a + Eq + Hash, V: 'a, S: BuildHasher + Clone> DashMap<K, V, S> {
    /// Wraps this `DashMap` into a read-only view. This view allows to obtain raw references to the stored values.
    pub fn into_read_only(self) -> ReadOnlyView<K, V, S> {
        ReadOnlyView::new(self)
    }

    /// Creates a new DashMap with a capacity of 0 and the provided hasher.
    ///
    /// # Examples
    ///
    /// ```
    /// use dashmap::DashMap;
    /// use std::collections::hash_map::RandomState;
    ///
    /// let s = RandomState::new();
    /// let reviews = DashMap::with_hasher(s);
    /// reviews.insert("Veloren", "What a fantastic game!");
    /// ```
    pub fn with_hasher(hasher: S) -> Self {
        Self::with_capacity_and_hasher(0, hasher)
    }

    /// Creates a new DashMap with a specified starting capacity and hasher.
    ///
    /// # Examples
    ///
    /// ```
    /// use dashmap::DashMap;
    /// use std::collections::hash_map::RandomState;
    ///
    /// let s = RandomState::new();
    /// let mappings = DashMap::with_capacity_and_hasher(2, s);
    /// mappings.insert(2, 4);
    /// mappings.insert(8, 16);
    /// ```
    pub fn with_capacity_and_hasher(capacity: usize, hasher: S) -> Self {
        Self::with_capacity_and_hasher_and_shard_amount(capacity, hasher, default_shard_amount())
    }

    /// Creates a new DashMap with a specified hasher and shard amount
    ///
    /// shard_amount should be greater than 0 and a power of two.
    /// If a shard_amount which is not a power of two is provided, the function will panic.
    ///
    /// # Examples
    ///
    /// ```
    /// use dashmap::DashMap;
    /// use std::collections::hash_map::RandomState;
    ///
    /// let s = RandomState::new();
    /// let mappings = DashMap::with_hasher_and_shard_amount(s, 32);
    /// mappings.insert(2, 4);
    /// mappings.insert(8, 16);
    /// ```
    pub fn with_hasher_and_shard_amount(hasher: S, shard_amount: usize) -> Self {
        Self::with_capacity_and_hasher_and_shard_amount(0, hasher, shard_amount)
    }

    /// Creates a new DashMap with a specified starting capacity, hasher and shard_amount.
    ///
    /// shard_amount should greater than 0 and be a power of two.
    /// If a shard_amount which is not a power of two is provided, the function will panic.
    ///
    /// # Examples
    ///
    /// ```
    /// use dashmap::DashMap;
    /// use std::collections::hash_map::RandomState;
    ///
    /// let s = RandomState::new();
    /// let mappings = DashMap::with_capacity_and_hasher_and_shard_amount(2, s, 32);
    /// mappings.insert(2, 4);
    /// mappings.insert(8, 16);
    /// ```
    pub fn with_capacity_and_hasher_and_shard_amount(
        mut capacity: usize,
        hasher: S,
        shard_amount: usize,
    ) -> Self {
        assert!(shard_amount > 1);
        assert!(shard_amount.is_power_of_two());

        let shift = util::ptr_size_bits() - ncb(shard_amount);

        if capacity != 0 {
            capacity = (capacity + (shard_amount - 1)) & !(shard_amount - 1);
        }

        let cps = capacity / shard_amount;

        let shards = (0..shard_amount)
            .map(|_| CachePadded::new(RwLock::new(HashMap::with_capacity(cps))))
            .collect();

        Self {
            shift,
            shards,
            hasher,
        }
    }

    /// Hash a given item to produce a usize.
    /// Uses the provided or default HashBuilder.
    pub fn hash_usize<T: Hash>(&self, item: &T) -> usize {
        self.hash_u64(item) as usize
    }

    fn hash_u64<T: Hash>(&self, item: &T) -> u64 {
        let mut hasher = self.hasher.build_hasher();

        item.hash(&mut hasher);

        hasher.finish()
    }

    cfg_if! {
        if #[cfg(feature = "raw-api")] {
            /// Allows you to peek at the inner shards that store your data.
            /// You should probably not use this unless you know what you are doing.
            ///
            /// Requires the `raw-api` feature to be enabled.
            ///
            /// # Examples
            ///
            /// ```
            /// use dashmap::DashMap;
            ///
            /// let map = DashMap::<(), ()>::new();
            /// println!("Amount of shards: {}", map.shards().len());
            /// ```
            pub fn shards(&self) -> &[CachePadded<RwLock<HashMap<K, V>>>] {
                &self.shards
            }

            /// Provides mutable access to the inner shards that store your data.
            /// You should probably not use this unless you know what you are doing.
            ///
            /// Requires the `raw-api` feature to be enabled.
            ///
            /// # Examples
            ///
            /// ```
            /// use dashmap::DashMap;
            /// use dashmap::SharedValue;
            /// use std::hash::{Hash, Hasher, BuildHasher};
            ///
            /// let mut map = DashMap::<i32, &'static str>::new();
            /// let shard_ind = map.determine_map(&42);
            /// let mut factory = map.hasher().clone();
            /// let hasher = |tuple: &(i32, SharedValue<&'static str>)| {
            ///     let mut hasher = factory.build_hasher();
            ///     tuple.0.hash(&mut hasher);
            ///     hasher.finish()
            /// };
            /// let data = (42, SharedValue::new("forty two"));
            /// let hash = hasher(&data);
            /// map.shards_mut()[shard_ind].get_mut().insert(hash, data, hasher);
            /// assert_eq!(*map.get(&42).unwrap(), "forty two");
            /// ```
            pub fn shards_mut(&mut self) -> &mut [CachePadded<RwLock<HashMap<K, V>>>] {
                &mut self.shards
            }

            /// Consumes this `DashMap` and returns the inner shards.
            /// You should probably not use this unless you know what you are doing.
            ///
            /// Requires the `raw-api` feature to be enabled.
            ///
            /// See [`DashMap::shards()`] and [`DashMap::shards_mut()`] for more information.
            pub fn into_shards(self) -> Box<[CachePadded<RwLock<HashMap<K, V>>>]> {
                self.shards
            }
        } else {
            #[allow(dead_code)]
            pub(crate) fn shards(&self) -> &[CachePadded<RwLock<HashMap<K, V>>>] {
                &self.shards
            }

            #[allow(dead_code)]
            pub(crate) fn shards_mut(&mut self) -> &mut [CachePadded<RwLock<HashMap<K, V>>>] {
                &mut self.shards
            }

            #[allow(dead_code)]
            pub(crate) fn into_shards(self) -> Box<[CachePadded<RwLock<HashMap<K, V>>>]> {
                self.shards
            }
        }
    }

    cfg_if! {
        if #[cfg(feature = "raw-api")] {
            /// Finds which shard a certain key is stored in.
            /// You should probably not use this unless you know what you are doing.
            /// Note that shard selection is dependent on the default or provided HashBuilder.
            ///
            /// Requires the `raw-api` feature to be enabled.
            ///
            /// # Examples
            ///
            /// ```
            /// use dashmap::DashMap;
            ///
            /// let map = DashMap::new();
            /// map.insert("coca-cola", 1.4);
            /// println!("coca-cola is stored in shard: {}", map.determine_map("coca-cola"));
            /// ```
            pub fn determine_map<Q>(&self, key: &Q) -> usize
            where
                K: Borrow<Q>,
                Q: Hash + Eq + ?Sized,
            {
                let hash = self.hash_usize(&key);
                self.determine_shard(hash)
            }
        }
    }

    cfg_if! {
        if #[cfg(feature = "raw-api")] {
            /// Finds which shard a certain hash is stored in.
            ///
            /// Requires the `raw-api` feature to be enabled.
            ///
            /// # Examples
            ///
            /// ```
            /// use dashmap::DashMap;
            ///
            /// let map: DashMap<i32, i32> = DashMap::new();
            /// let key = "key";
            /// let hash = map.hash_usize(&key);
            /// println!("hash is stored in shard: {}", map.determine_shard(hash));
            /// ```
            pub fn determine_shard(&self, hash: usize) -> usize {
                // Leave the high 7 bits for the HashBrown SIMD tag.
                (hash << 7) >> self.shift
            }
        } else {

            pub(crate) fn determine_shard(&self, hash: usize) -> usize {
                // Leave the high 7 bits for the HashBrown SIMD tag.
                (hash << 7) >> self.shift
            }
        }
    }

    /// Returns a reference to the map's [`BuildHasher`].
    ///
    /// # Examples
    ///
    /// ```rust
    /// use dashmap::DashMap;
    /// use std::collections::hash_map::RandomState;
    ///
    /// let hasher = RandomState::new();
    /// let map: DashMap<i32, i32> = DashMap::new();
    /// let hasher: &RandomState = map.hasher();
    /// ```
    ///
    /// [`BuildHasher`]: https://doc.rust-lang.org/std/hash/trait.BuildHasher.html
    pub fn hasher(&self) -> &S {
        &self.hasher
    }

    /// Inserts a key and a value into the map. Returns the old value associated with the key if there was one.
    ///
    /// **Locking behaviour:** May deadlock if called when holding any sort of reference into the map.
    ///
    /// # Examples
    ///
    /// ```
    /// use dashmap::DashMap;
    ///
    /// let map = DashMap::new();
    /// map.insert("I am the key!", "And I am the value!");
    /// ```
    pub fn insert(&self, key: K, value: V) -> Option<V> {
        self._insert(key, value)
    }

    /// Removes an entry from the map, returning the key and value if they existed in the map.
    ///
    /// **Locking behaviour:** May deadlock if called when holding any sort of reference into the map.
    ///
    /// # Examples
    ///
    /// ```
    /// use dashmap::DashMap;
    ///
    /// let soccer_team = DashMap::new();
    /// soccer_team.insert("Jack", "Goalie");
    /// assert_eq!(soccer_team.remove("Jack").unwrap().1, "Goalie");
    /// ```
    pub fn remove<Q>(&self, key: &Q) -> Option<(K, V)>
    where
        K: Borrow<Q>,
        Q: Hash + Eq + ?Sized,
    {
        self._remove(key)
    }

    /// Removes an entry from the map, returning the key and value
    /// if the entry existed and the provided conditional function returned true.
    ///
    /// **Locking behaviour:** May deadlock if called when holding any sort of reference into the map.
    ///
    /// ```
    /// use dashmap::DashMap;
    ///
    /// let soccer_team = DashMap::new();
    /// soccer_team.insert("Sam", "Forward");
    /// soccer_team.remove_if("Sam", |_, position| position == &"Goalie");
    /// assert!(soccer_team.contains_key("Sam"));
    /// ```
    /// ```
    /// use dashmap::DashMap;
    ///
    /// let soccer_team = DashMap::new();
    /// soccer_team.insert("Sam", "Forward");
    /// soccer_team.remove_if("Sam", |_, position| position == &"Forward");
    /// assert!(!soccer_team.contains_key("Sam"));
    /// ```
    pub fn remove_if<Q>(&self, key: &Q, f: impl FnOnce(&K, &V) -> bool) -> Option<(K, V)>
    where
        K: Borrow<Q>,
        Q: Hash + Eq + ?Sized,
    {
        self._remove_if(key, f)
    }

    pub fn remove_if_mut<Q>(&self, key: &Q, f: impl FnOnce(&K, &mut V) -> bool) -> Option<(K, V)>
    where
        K: Borrow<Q>,
        Q: Hash + Eq + ?Sized,
    {
        self._remove_if_mut(key, f)
    }

    /// Creates an iterator over a DashMap yielding immutable references.
    ///
    /// **Locking behaviour:** May deadlock if called when holding a mutable reference into the map.
    ///
    /// # Examples
    ///
    /// ```
    /// use dashmap::DashMap;
    ///
    /// let words = DashMap::new();
    /// words.insert("hello", "world");
    /// assert_eq!(words.iter().count(), 1);
    /// ```
    pub fn iter(&'a self) -> Iter<'a, K, V, S, DashMap<K, V, S>> {
        self._iter()
    }

    /// Iterator over a DashMap yielding mutable references.
    ///
    /// **Locking behaviour:** May deadlock if called when holding any sort of reference into the map.
    ///
    /// # Examples
    ///
    /// ```
    /// use dashmap::DashMap;
    ///
    /// let map = DashMap::new();
    /// map.insert("Johnny", 21);
    /// map.iter_mut().for_each(|mut r| *r += 1);
    /// assert_eq!(*map.get("Johnny").unwrap(), 22);
    /// ```
    pub fn iter_mut(&'a self) -> IterMut<'a, K, V, S, DashMap<K, V, S>> {
        self._iter_mut()
    }

    /// Get an immutable reference to an entry in the map
    ///
    /// **Locking behaviour:** May deadlock if called when holding a mutable reference into the map.
    ///
    /// # Examples
    ///
    /// ```
    /// use dashmap::DashMap;
    ///
    /// let youtubers = DashMap::new();
    /// youtubers.insert("Bosnian Bill", 457000);
    /// assert_eq!(*youtubers.get("Bosnian Bill").unwrap(), 457000);
    /// ```
    pub fn get<Q>(&'a self, key: &Q) -> Option<Ref<'a, K, V>>
    where
        K: Borrow<Q>,
        Q: Hash + Eq + ?Sized,
    {
        self._get(key)
    }

    /// Get a mutable reference to an entry in the map
    ///
    /// **Locking behaviour:** May deadlock if called when holding any sort of reference into the map.
    ///
    /// # Examples
    ///
    /// ```
    /// use dashmap::DashMap;
    ///
    /// let class = DashMap::new();
    /// class.insert("Albin", 15);
    /// *class.get_mut("Albin").unwrap() -= 1;
    /// assert_eq!(*class.get("Albin").unwrap(), 14);
    /// ```
    pub fn get_mut<Q>(&'a self, key: &Q) -> Option<RefMut<'a, K, V>>
    where
        K: Borrow<Q>,
        Q: Hash + Eq + ?Sized,
    {
        self._get_mut(key)
    }

    /// Get an immutable reference to an entry in the map, if the shard is not locked.
    /// If the shard is locked, the function will return [TryResult::Locked].
    ///
    /// # Examples
    ///
    /// ```
    /// use dashmap::DashMap;
    /// use dashmap::try_result::TryResult;
    ///
    /// let map = DashMap::new();
    /// map.insert("Johnny", 21);
    ///
    /// assert_eq!(*map.try_get("Johnny").unwrap(), 21);
    ///
    /// let _result1_locking = map.get_mut("Johnny");
    ///
    /// let result2 = map.try_get("Johnny");
    /// assert!(result2.is_locked());
    /// ```
    pub fn try_get<Q>(&'a self, key: &Q) -> TryResult<Ref<'a, K, V>>
    where
        K: Borrow<Q>,
        Q: Hash + Eq + ?Sized,
    {
        self._try_get(key)
    }

    /// Get a mutable reference to an entry in the map, if the shard is not locked.
    /// If the shard is locked, the function will return [TryResult::Locked].
    ///
    /// # Examples
    ///
    /// ```
    /// use dashmap::DashMap;
    /// use dashmap::try_result::TryResult;
    ///
    /// let map = DashMap::new();
    /// map.insert("Johnny", 21);
    ///
    /// *map.try_get_mut("Johnny").unwrap() += 1;
    /// assert_eq!(*map.get("Johnny").unwrap(), 22);
    ///
    /// let _result1_locking = map.get("Johnny");
    ///
    /// let result2 = map.try_get_mut("Johnny");
    /// assert!(result2.is_locked());
    /// ```
    pub fn try_get_mut<Q>(&'a self, key: &Q) -> TryResult<RefMut<'a, K, V>>
    where
        K: Borrow<Q>,
        Q: Hash + Eq + ?Sized,
    {
        self._try_get_mut(key)
    }

    /// Remove excess capacity to reduce memory usage.
    ///
    /// **Locking behaviour:** May deadlock if called when holding any sort of reference into the map.
    /// # Examples
    ///
    /// ```
    /// use dashmap::DashMap;
    /// use dashmap::try_result::TryResult;
    ///
    /// let map = DashMap::new();
    /// map.insert("Johnny", 21);
    /// assert!(map.capacity() > 0);
    /// map.remove("Johnny");
    /// map.shrink_to_fit();
    /// assert_eq!(map.capacity(), 0);
    /// ```
    pub fn shrink_to_fit(&self) {
        self._shrink_to_fit();
    }

    /// Retain elements that whose predicates return true
    /// and discard elements whose predicates return false.
    ///
    /// **Locking behaviour:** May deadlock if called when holding any sort of reference into the map.
    ///
    /// # Examples
    ///
    /// ```
    /// use dashmap::DashMap;
    ///
    /// let people = DashMap::new();
    /// people.insert("Albin", 15);
    /// people.insert("Jones", 22);
    /// people.insert("Charlie", 27);
    /// people.retain(|_, v| *v > 20);
    /// assert_eq!(people.len(), 2);
    /// ```
    pub fn retain(&self, f: impl FnMut(&K, &mut V) -> bool) {
        self._retain(f);
    }

    /// Fetches the total number of key-value pairs stored in the map.
    ///
    /// **Locking behaviour:** May deadlock if called when holding a mutable reference into the map.
    ///
    /// # Examples
    ///
    /// ```
    /// use dashmap::DashMap;
    ///
    /// let people = DashMap::new();
    /// people.insert("Albin", 15);
    /// people.insert("Jones", 22);
    /// people.insert("Charlie", 27);
    /// assert_eq!(people.len(), 3);
    /// ```
    pub fn len(&self) -> usize {
        self._len()
    }

    /// Checks if the map is empty or not.
    ///
    /// **Locking behaviour:** May deadlock if called when holding a mutable reference into the map.
    ///
    /// # Examples
    ///
    /// ```
    /// use dashmap::DashMap;
    ///
    /// let map = DashMap::<(), ()>::new();
    /// assert!(map.is_empty());
    /// ```
    pub fn is_empty(&self) -> bool {
        self._is_empty()
    }

    /// Removes all key-value pairs in the map.
    ///
    /// **Locking behaviour:** May deadlock if called when holding any sort of reference into the map.
    ///
    /// # Examples
    ///
    /// ```
    /// use dashmap::DashMap;
    ///
    /// let stats = DashMap::new();
    /// stats.insert("Goals", 4);
    /// assert!(!stats.is_empty());
    /// stats.clear();
    /// assert!(stats.is_empty());
    /// ```
    pub fn clear(&self) {
        self._clear();
    }

    /// Returns how many key-value pairs the map can store without reallocating.
    ///
    /// **Locking behaviour:** May deadlock if called when holding a mutable reference into the map.
    pub fn capacity(&self) -> usize {
        self._capacity()
    }

    /// Modify a specific value according to a function.
    ///
    /// **Locking behaviour:** May deadlock if called when holding any sort of reference into the map.
    ///
    /// # Examples
    ///
    /// ```
    /// use dashmap::DashMap;
    ///
    /// let stats = DashMap::new();
    /// stats.insert("Goals", 4);
    /// stats.alter("Goals", |_, v| v * 2);
    /// assert_eq!(*stats.get("Goals").unwrap(), 8);
    /// ```
    ///
    /// # Panics
    ///
    /// If the given closure panics, then `alter` will abort the process
    pub fn alter<Q>(&self, key: &Q, f: impl FnOnce(&K, V) -> V)
    where
        K: Borrow<Q>,
        Q: Hash + Eq + ?Sized,
    {
        self._alter(key, f);
    }

    /// Modify every value in the map according to a function.
    ///
    /// **Locking behaviour:** May deadlock if called when holding any sort of reference into the map.
    ///
    /// # Examples
    ///
    /// ```
    /// use dashmap::DashMap;
    ///
    /// let stats = DashMap::new();
    /// stats.insert("Wins", 4);
    /// stats.insert("Losses", 2);
    /// stats.alter_all(|_, v| v + 1);
    /// assert_eq!(*stats.get("Wins").unwrap(), 5);
    /// assert_eq!(*stats.get("Losses").unwrap(), 3);
    /// ```
    ///
    /// # Panics
    ///
    /// If the given closure panics, then `alter_all` will abort the process
    pub fn alter_all(&self, f: impl FnMut(&K, V) -> V) {
        self._alter_all(f);
    }

    /// Scoped access into an item of the map according to a function.
    ///
    /// **Locking behaviour:** May deadlock if called when holding any sort of reference into the map.
    ///
    /// # Examples
    ///
    /// ```
    /// use dashmap::DashMap;
    ///
    /// let warehouse = DashMap::new();
    /// warehouse.insert(4267, ("Banana", 100));
    /// warehouse.insert(2359, ("Pear", 120));
    /// let fruit = warehouse.view(&4267, |_k, v| *v);
    /// assert_eq!(fruit, Some(("Banana", 100)));
    /// ```
    ///
    /// # Panics
    ///
    /// If the given closure panics, then `view` will abort the process
    pub fn view<Q, R>(&self, key: &Q, f: impl FnOnce(&K, &V) -> R) -> Option<R>
    where
        K: Borrow<Q>,
        Q: Hash + Eq + ?Sized,
    {
        self._view(key, f)
    }

    /// Checks if the map contains a specific key.
    ///
    /// **Locking behaviour:** May deadlock if called when holding a mutable reference into the map.
    ///
    /// # Examples
    ///
    /// ```
    /// use dashmap::DashMap;
    ///
    /// let team_sizes = DashMap::new();
    /// team_sizes.insert("Dakota Cherries", 23);
    /// assert!(team_sizes.contains_key("Dakota Cherries"));
    /// ```
    pub fn contains_key<Q>(&self, key: &Q) -> bool
    where
        K: Borrow<Q>,
        Q: Hash + Eq + ?Sized,
    {
        self._contains_key(key)
    }

    /// Advanced entry API that tries to mimic `std::collections::HashMap`.
    /// See the documentation on `dashmap::mapref::entry` for more details.
    ///
    /// **Locking behaviour:** May deadlock if called when holding any sort of reference into the map.
    pub fn entry(&'a self, key: K) -> Entry<'a, K, V> {
        self._entry(key)
    }

    /// Advanced entry API that tries to mimic `std::collections::HashMap`.
    /// See the documentation on `dashmap::mapref::entry` for more details.
    ///
    /// Returns None if the shard is currently locked.
    pub fn try_entry(&'a self, key: K) -> Option<Entry<'a, K, V>> {
        self._try_entry(key)
    }

    /// Advanced entry API that tries to mimic `std::collections::HashMap::try_reserve`.
    /// Tries to reserve capacity for at least `shard * additional`
    /// and may reserve more space to avoid frequent reallocations.
    ///
    /// # Errors
    ///
    /// If the capacity overflows, or the allocator reports a failure, then an error is returned.
    // TODO: return std::collections::TryReserveError once std::collections::TryReserveErrorKind stabilises.
    pub fn try_reserve(&mut self, additional: usize) -> Result<(), TryReserveError> {
        for shard in self.shards.iter() {
            shard
                .write()
                .try_reserve(additional, |(k, _v)| {
                    let mut hasher = self.hasher.build_hasher();
                    k.hash(&mut hasher);
                    hasher.finish()
                })
                .map_err(|_| TryReserveError {})?;
        }
        Ok(())
    }
}

impl<'a, K: 'a + Eq + Hash, V: 'a, S: 'a + BuildHasher + Clone> Map<'a, K, V, S>
    for DashMap<K, V, S>
{
    fn _shard_count(&self) -> usize {
        self.shards.len()
    }

    unsafe fn _get_read_shard(&'a self, i: usize) -> &'a HashMap<K, V> {
        debug_assert!(i < self.shards.len());

        &*self.shards.get_unchecked(i).data_ptr()
    }

    unsafe fn _yield_read_shard(&'a self, i: usize) -> RwLockReadGuard<'a, HashMap<K, V>> {
        debug_assert!(i < self.shards.len());

        self.shards.get_unchecked(i).read()
    }

    unsafe fn _yield_write_shard(&'a self, i: usize) -> RwLockWriteGuard<'a, HashMap<K, V>> {
        debug_assert!(i < self.shards.len());

        self.shards.get_unchecked(i).write()
    }

    unsafe fn _try_yield_read_shard(
        &'a self,
        i: usize,
    ) -> Option<RwLockReadGuard<'a, HashMap<K, V>>> {
        debug_assert!(i < self.shards.len());

        self.shards.get_unchecked(i).try_read()
    }

    unsafe fn _try_yield_write_shard(
        &'a self,
        i: usize,
    ) -> Option<RwLockWriteGuard<'a, HashMap<K, V>>> {
        debug_assert!(i < self.shards.len());

        self.shards.get_unchecked(i).try_write()
    }

    fn _insert(&self, key: K, value: V) -> Option<V> {
        match self.entry(key) {
            Entry::Occupied(mut o) => Some(o.insert(value)),
            Entry::Vacant(v) => {
                v.insert(value);
                None
            }
        }
    }

    fn _remove<Q>(&self, key: &Q) -> Option<(K, V)>
    where
        K: Borrow<Q>,
        Q: Hash + Eq + ?Sized,
    {
        let hash = self.hash_u64(&key);

        let idx = self.determine_shard(hash as usize);

        let mut shard = unsafe { self._yield_write_shard(idx) };

        if let Some(bucket) = shard.find(hash, |(k, _v)| key == k.borrow()) {
            let ((k, v), _) = unsafe { shard.remove(bucket) };
            Some((k, v.into_inner()))
        } else {
            None
        }
    }

    fn _remove_if<Q>(&self, key: &Q, f: impl FnOnce(&K, &V) -> bool) -> Option<(K, V)>
    where
        K: Borrow<Q>,
        Q: Hash + Eq + ?Sized,
    {
        let hash = self.hash_u64(&key);

        let idx = self.determine_shard(hash as usize);

        let mut shard = unsafe { self._yield_write_shard(idx) };

        if let Some(bucket) = shard.find(hash, |(k, _v)| key == k.borrow()) {
            let (k, v) = unsafe { bucket.as_ref() };
            if f(k, v.get()) {
                let ((k, v), _) = unsafe { shard.remove(bucket) };
                Some((k, v.into_inner()))
            } else {
                None
            }
        } else {
            None
        }
    }

    fn _remove_if_mut<Q>(&self, key: &Q, f: impl FnOnce(&K, &mut V) -> bool) -> Option<(K, V)>
    where
        K: Borrow<Q>,
        Q: Hash + Eq + ?Sized,
    {
        let hash = self.hash_u64(&key);

        let idx = self.determine_shard(hash as usize);

        let mut shard = unsafe { self._yield_write_shard(idx) };

        if let Some(bucket) = shard.find(hash, |(k, _v)| key == k.borrow()) {
            let (k, v) = unsafe { bucket.as_mut() };
            if f(k, v.get_mut()) {
                let ((k, v), _) = unsafe { shard.remove(bucket) };
                Some((k, v.into_inner()))
            } else {
                None
            }
        } else {
            None
        }
    }

    fn _iter(&'a self) -> Iter<'a, K, V, S, DashMap<K, V, S>> {
        Iter::new(self)
    }

    fn _iter_mut(&'a self) -> IterMut<'a, K, V, S, DashMap<K, V, S>> {
        IterMut::new(self)
    }

    fn _get<Q>(&'a self, key: &Q) -> Option<Ref<'a, K, V>>
    where
        K: Borrow<Q>,
        Q: Hash + Eq + ?Sized,
    {
        let hash = self.hash_u64(&key);

        let idx = self.determine_shard(hash as usize);

        let shard = unsafe { self._yield_read_shard(idx) };

        if let Some(bucket) = shard.find(hash, |(k, _v)| key == k.borrow()) {
            unsafe {
                let (k, v) = bucket.as_ref();
                Some(Ref::new(shard, k, v.as_ptr()))
            }
        } else {
            None
        }
    }

    fn _get_mut<Q>(&'a self, key: &Q) -> Option<RefMut<'a, K, V>>
    where
        K: Borrow<Q>,
        Q: Hash + Eq + ?Sized,
    {
        let hash = self.hash_u64(&key);

        let idx = self.determine_shard(hash as usize);

        let shard = unsafe { self._yield_write_shard(idx) };

        if let Some(bucket) = shard.find(hash, |(k, _v)| key == k.borrow()) {
            unsafe {
                let (k, v) = bucket.as_ref();
                Some(RefMut::new(shard, k, v.as_ptr()))
            }
        } else {
            None
        }
    }

    fn _try_get<Q>(&'a self, key: &Q) -> TryResult<Ref<'a, K, V>>
    where
        K: Borrow<Q>,
        Q: Hash + Eq + ?Sized,
    {
        let hash = self.hash_u64(&key);

        let idx = self.determine_shard(hash as usize);

        let shard = match unsafe { self._try_yield_read_shard(idx) } {
            Some(shard) => shard,
            None => return TryResult::Locked,
        };

        if let Some(bucket) = shard.find(hash, |(k, _v)| key == k.borrow()) {
            unsafe {
                let (k, v) = bucket.as_ref();
                TryResult::Present(Ref::new(shard, k, v.as_ptr()))
            }
        } else {
            TryResult::Absent
        }
    }

    fn _try_get_mut<Q>(&'a self, key: &Q) -> TryResult<RefMut<'a, K, V>>
    where
        K: Borrow<Q>,
        Q: Hash + Eq + ?Sized,
    {
        let hash = self.hash_u64(&key);

        let idx = self.determine_shard(hash as usize);

        let shard = match unsafe { self._try_yield_write_shard(idx) } {
            Some(shard) => shard,
            None => return TryResult::Locked,
        };

        if let Some(bucket) = shard.find(hash, |(k, _v)| key == k.borrow()) {
            unsafe {
                let (k, v) = bucket.as_ref();
                TryResult::Present(RefMut::new(shard, k, v.as_ptr()))
            }
        } else {
            TryResult::Absent
        }
    }

    fn _shrink_to_fit(&self) {
        self.shards.iter().for_each(|s| {
            let mut shard = s.write();
            let size = shard.len();
            shard.shrink_to(size, |(k, _v)| {
                let mut hasher = self.hasher.build_hasher();
                k.hash(&mut hasher);
                hasher.finish()
            })
        });
    }

    fn _retain(&self, mut f: impl FnMut(&K, &mut V) -> bool) {
        self.shards.iter().for_each(|s| {
            unsafe {
                let mut shard = s.write();
                // Here we only use `iter` as a temporary, preventing use-after-free
                for bucket in shard.iter() {
                    let (k, v) = bucket.as_mut();
                    if !f(&*k, v.get_mut()) {
                        shard.erase(bucket);
                    }
                }
            }
        });
    }

    fn _len(&self) -> usize {
        self.shards.iter().map(|s| s.read().len()).sum()
    }

    fn _capacity(&self) -> usize {
        self.shards.iter().map(|s| s.read().capacity()).sum()
    }

    fn _alter<Q>(&self, key: &Q, f: impl FnOnce(&K, V) -> V)
    where
        K: Borrow<Q>,
        Q: Hash + Eq + ?Sized,
    {
        if let Some(mut r) = self.get_mut(key) {
            util::map_in_place_2(r.pair_mut(), f);
        }
    }

    fn _alter_all(&self, mut f: impl FnMut(&K, V) -> V) {
        self.iter_mut()
            .for_each(|mut m| util::map_in_place_2(m.pair_mut(), &mut f));
    }

    fn _view<Q, R>(&self, key: &Q, f: impl FnOnce(&K, &V) -> R) -> Option<R>
    where
        K: Borrow<Q>,
        Q: Hash + Eq + ?Sized,
    {
        self.get(key).map(|r| {
            let (k, v) = r.pair();
            f(k, v)
        })
    }

    fn _entry(&'a self, key: K) -> Entry<'a, K, V> {
        let hash = self.hash_u64(&key);

        let idx = self.determine_shard(hash as usize);

        let mut shard = unsafe { self._yield_write_shard(idx) };

        match shard.find_or_find_insert_slot(
            hash,
            |(k, _v)| k == &key,
            |(k, _v)| {
                let mut hasher = self.hasher.build_hasher();
                k.hash(&mut hasher);
                hasher.finish()
            },
        ) {
            Ok(elem) => Entry::Occupied(unsafe { OccupiedEntry::new(shard, key, elem) }),
            Err(slot) => Entry::Vacant(unsafe { VacantEntry::new(shard, key, hash, slot) }),
        }
    }

    fn _try_entry(&'a self, key: K) -> Option<Entry<'a, K, V>> {
        let hash = self.hash_u64(&key);

        let idx = self.determine_shard(hash as usize);

        let mut shard = match unsafe { self._try_yield_write_shard(idx) } {
            Some(shard) => shard,
            None => return None,
        };

        match shard.find_or_find_insert_slot(
            hash,
            |(k, _v)| k == &key,
            |(k, _v)| {
                let mut hasher = self.hasher.build_hasher();
                k.hash(&mut hasher);
                hasher.finish()
            },
        ) {
            Ok(elem) => Some(Entry::Occupied(unsafe {
                OccupiedEntry::new(shard, key, elem)
            })),
            Err(slot) => Some(Entry::Vacant(unsafe {
                VacantEntry::new(shard, key, hash, slot)
            })),
        }
    }

    fn _hasher(&self) -> S {
        self.hasher.clone()
    }
}

impl<K: Eq + Hash + fmt::Debug, V: fmt::Debug, S: BuildHasher + Clone> fmt::Debug
    for DashMap<K, V, S>
{
    fn fmt(&self, f: &mut fmt::Formatter<'_>) -> fmt::Result {
        let mut pmap = f.debug_map();

        for r in self {
            let (k, v) = r.pair();

            pmap.entry(k, v);
        }

        pmap.finish()
    }
}

impl<'a, K: 'a + Eq + Hash, V: 'a, S: BuildHasher + Clone> Shl<(K, V)> for &'a DashMap<K, V, S> {
    type Output = Option<V>;

    fn shl(self, pair: (K, V)) -> Self::Output {
        self.insert(pair.0, pair.1)
    }
}

impl<'a, K: 'a + Eq + Hash, V: 'a, S: BuildHasher + Clone, Q> Shr<&Q> for &'a DashMap<K, V, S>
where
    K: Borrow<Q>,
    Q: Hash + Eq + ?Sized,
{
    type Output = Ref<'a, K, V>;

    fn shr(self, key: &Q) -> Self::Output {
        self.get(key).unwrap()
    }
}

impl<'a, K: 'a + Eq + Hash, V: 'a, S: BuildHasher + Clone, Q> BitOr<&Q> for &'a DashMap<K, V, S>
where
    K: Borrow<Q>,
    Q: Hash + Eq + ?Sized,
{
    type Output = RefMut<'a, K, V>;

    fn bitor(self, key: &Q) -> Self::Output {
        self.get_mut(key).unwrap()
    }
}

impl<'a, K: 'a + Eq + Hash, V: 'a, S: BuildHasher + Clone, Q> Sub<&Q> for &'a DashMap<K, V, S>
where
    K: Borrow<Q>,
    Q: Hash + Eq + ?Sized,
{
    type Output = Option<(K, V)>;

    fn sub(self, key: &Q) -> Self::Output {
        self.remove(key)
    }
}

impl<'a, K: 'a + Eq + Hash, V: 'a, S: BuildHasher + Clone, Q> BitAnd<&Q> for &'a DashMap<K, V, S>
where
    K: Borrow<Q>,
    Q: Hash + Eq + ?Sized,
{
    type Output = bool;

    fn bitand(self, key: &Q) -> Self::Output {
        self.contains_key(key)
    }
}

impl<K: Eq + Hash, V, S: BuildHasher + Clone> IntoIterator for DashMap<K, V, S> {
    type Item = (K, V);

    type IntoIter = OwningIter<K, V, S>;

    fn into_iter(self) -> Self::IntoIter {
        OwningIter::new(self)
    }
}

impl<'a, K: Eq + Hash, V, S: BuildHasher + Clone> IntoIterator for &'a DashMap<K, V, S> {
    type Item = RefMulti<'a, K, V>;

    type IntoIter = Iter<'a, K, V, S, DashMap<K, V, S>>;

    fn into_iter(self) -> Self::IntoIter {
        self.iter()
    }
}

impl<K: Eq + Hash, V, S: BuildHasher + Clone> Extend<(K, V)> for DashMap<K, V, S> {
    fn extend<I: IntoIterator<Item = (K, V)>>(&mut self, intoiter: I) {
        for pair in intoiter.into_iter() {
            self.insert(pair.0, pair.1);
        }
    }
}

impl<K: Eq + Hash, V, S: BuildHasher + Clone + Default> FromIterator<(K, V)> for DashMap<K, V, S> {
    fn from_iter<I: IntoIterator<Item = (K, V)>>(intoiter: I) -> Self {
        let mut map = DashMap::default();

        map.extend(intoiter);

        map
    }
}

#[cfg(feature = "typesize")]
impl<K, V, S> typesize::TypeSize for DashMap<K, V, S>
where
    K: typesize::TypeSize + Eq + Hash,
    V: typesize::TypeSize,
    S: typesize::TypeSize + Clone + BuildHasher,
{
    fn extra_size(&self) -> usize {
        let shards_extra_size: usize = self
            .shards
            .iter()
            .map(|shard_lock| {
                let shard = shard_lock.read();
                let hashtable_size = shard.allocation_info().1.size();

                // Safety: The iterator is dropped before the HashTable
                let iter = unsafe { shard.iter() };
                let entry_size_iter = iter.map(|bucket| {
                    // Safety: The iterator returns buckets with valid pointers to entries
                    let (key, value) = unsafe { bucket.as_ref() };
                    key.extra_size() + value.get().extra_size()
                });

                core::mem::size_of::<CachePadded<RwLock<HashMap<K, V>>>>()
                    + hashtable_size
                    + entry_size_iter.sum::<usize>()
            })
            .sum();

        self.hasher.extra_size() + shards_extra_size
    }

    typesize::if_typesize_details! {
        fn get_collection_item_count(&self) -> Option<usize> {
            Some(self.len())
        }
    }
}

#[cfg(test)]
mod tests {
    use crate::DashMap;
    use std::collections::hash_map::RandomState;

    #[test]
    fn test_basic() {
        let dm = DashMap::new();

        dm.insert(0, 0);

        assert_eq!(dm.get(&0).unwrap().value(), &0);
    }

    #[test]
    fn test_default() {
        let dm: DashMap<u32, u32> = DashMap::default();

        dm.insert(0, 0);

        assert_eq!(dm.get(&0).unwrap().value(), &0);
    }

    #[test]
    fn test_multiple_hashes() {
        let dm: DashMap<u32, u32> = DashMap::default();

        for i in 0..100 {
            dm.insert(0, i);

            dm.insert(i, i);
        }

        for i in 1..100 {
            let r = dm.get(&i).unwrap();

            assert_eq!(i, *r.value());

            assert_eq!(i, *r.key());
        }

        let r = dm.get(&0).unwrap();

        assert_eq!(99, *r.value());
    }

    #[test]
    fn test_more_complex_values() {
        #[derive(Hash, PartialEq, Debug, Clone)]

        struct T0 {
            s: String,
            u: u8,
        }

        let dm = DashMap::new();

        let range = 0..10;

        for i in range {
            let t = T0 {
                s: i.to_string(),
                u: i as u8,
            };

            dm.insert(i, t.clone());

            assert_eq!(&t, dm.get(&i).unwrap().value());
        }
    }

    #[test]
    fn test_different_hashers_randomstate() {
        let dm_hm_default: DashMap<u32, u32, RandomState> =
            DashMap::with_hasher(RandomState::new());

        for i in 0..10 {
            dm_hm_default.insert(i, i);

            assert_eq!(i, *dm_hm_default.get(&i).unwrap().value());
        }
    }

    #[test]
    fn test_map_view() {
        let dm = DashMap::new();

        let vegetables: [String; 4] = [
            "Salad".to_string(),
            "Beans".to_string(),
            "Potato".to_string(),
            "Tomato".to_string(),
        ];

        // Give it some values
        dm.insert(0, "Banana".to_string());
        dm.insert(4, "Pear".to_string());
        dm.insert(9, "Potato".to_string());
        dm.insert(12, "Chicken".to_string());

        let potato_vegetableness = dm.view(&9, |_, v| vegetables.contains(v));
        assert_eq!(potato_vegetableness, Some(true));

        let chicken_vegetableness = dm.view(&12, |_, v| vegetables.contains(v));
        assert_eq!(chicken_vegetableness, Some(false));

        let not_in_map = dm.view(&30, |_k, _v| false);
        assert_eq!(not_in_map, None);
    }

    #[test]
    fn test_try_get() {
        {
            let map = DashMap::new();
            map.insert("Johnny", 21);

            assert_eq!(*map.try_get("Johnny").unwrap(), 21);

            let _result1_locking = map.get_mut("Johnny");

            let result2 = map.try_get("Johnny");
            assert!(result2.is_locked());
        }

        {
            let map = DashMap::new();
            map.insert("Johnny", 21);

            *map.try_get_mut("Johnny").unwrap() += 1;
            assert_eq!(*map.get("Johnny").unwrap(), 22);

            let _result1_locking = map.get("Johnny");

            let result2 = map.try_get_mut("Johnny");
            assert!(result2.is_locked());
        }
    }

    #[test]
    fn test_try_reserve() {
        let mut map: DashMap<i32, i32> = DashMap::new();
        // DashMap is empty and doesn't allocate memory
        assert_eq!(map.capacity(), 0);

        map.try_reserve(10).unwrap();

        // And now map can hold at least 10 elements
        assert!(map.capacity() >= 10);
    }

    #[test]
    fn test_try_reserve_errors() {
        let mut map: DashMap<i32, i32> = DashMap::new();

        match map.try_reserve(usize::MAX) {
            Err(_) => {}
            _ => panic!("should have raised CapacityOverflow error"),
        }
    }
}

use super::mapref::multiple::{RefMulti, RefMutMulti};
use crate::lock::{RwLockReadGuard, RwLockWriteGuard};
use crate::t::Map;
use crate::util::SharedValue;
use crate::{DashMap, HashMap};
use core::hash::{BuildHasher, Hash};
use core::mem;
use std::collections::hash_map::RandomState;
use std::marker::PhantomData;
use std::sync::Arc;

/// Iterator over a DashMap yielding key value pairs.
///
/// # Examples
///
/// ```
/// use dashmap::DashMap;
///
/// let map = DashMap::new();
/// map.insert("hello", "world");
/// map.insert("alex", "steve");
/// let pairs: Vec<(&'static str, &'static str)> = map.into_iter().collect();
/// assert_eq!(pairs.len(), 2);
/// ```
pub struct OwningIter<K, V, S = RandomState> {
    map: DashMap<K, V, S>,
    shard_i: usize,
    current: Option<GuardOwningIter<K, V>>,
}

impl<K: Eq + Hash, V, S: BuildHasher + Clone> OwningIter<K, V, S> {
    pub(crate) fn new(map: DashMap<K, V, S>) -> Self {
        Self {
            map,
            shard_i: 0,
            current: None,
        }
    }
}

type GuardOwningIter<K, V> = hashbrown::raw::RawIntoIter<(K, SharedValue<V>)>;

impl<K: Eq + Hash, V, S: BuildHasher + Clone> Iterator for OwningIter<K, V, S> {
    type Item = (K, V);

    fn next(&mut self) -> Option<Self::Item> {
        loop {
            if let Some(current) = self.current.as_mut() {
                if let Some((k, v)) = current.next() {
                    return Some((k, v.into_inner()));
                }
            }

            if self.shard_i == self.map._shard_count() {
                return None;
            }

            //let guard = unsafe { self.map._yield_read_shard(self.shard_i) };
            let mut shard_wl = unsafe { self.map._yield_write_shard(self.shard_i) };

            let map = mem::take(&mut *shard_wl);

            drop(shard_wl);

            let iter = map.into_iter();

            //unsafe { ptr::write(&mut self.current, Some((arcee, iter))); }
            self.current = Some(iter);

            self.shard_i += 1;
        }
    }
}

unsafe impl<K, V, S> Send for OwningIter<K, V, S>
where
    K: Eq + Hash + Send,
    V: Send,
    S: BuildHasher + Clone + Send,
{
}

unsafe impl<K, V, S> Sync for OwningIter<K, V, S>
where
    K: Eq + Hash + Sync,
    V: Sync,
    S: BuildHasher + Clone + Sync,
{
}

type GuardIter<'a, K, V> = (
    Arc<RwLockReadGuard<'a, HashMap<K, V>>>,
    hashbrown::raw::RawIter<(K, SharedValue<V>)>,
);

type GuardIterMut<'a, K, V> = (
    Arc<RwLockWriteGuard<'a, HashMap<K, V>>>,
    hashbrown::raw::RawIter<(K, SharedValue<V>)>,
);

/// Iterator over a DashMap yielding immutable references.
///
/// # Examples
///
/// ```
/// use dashmap::DashMap;
///
/// let map = DashMap::new();
/// map.insert("hello", "world");
/// assert_eq!(map.iter().count(), 1);
/// ```
pub struct Iter<'a, K, V, S = RandomState, M = DashMap<K, V, S>> {
    map: &'a M,
    shard_i: usize,
    current: Option<GuardIter<'a, K, V>>,
    marker: PhantomData<S>,
}

impl<'i, K: Clone + Hash + Eq, V: Clone, S: Clone + BuildHasher> Clone for Iter<'i, K, V, S> {
    fn clone(&self) -> Self {
        Iter::new(self.map)
    }
}

unsafe impl<'a, 'i, K, V, S, M> Send for Iter<'i, K, V, S, M>
where
    K: 'a + Eq + Hash + Send,
    V: 'a + Send,
    S: 'a + BuildHasher + Clone,
    M: Map<'a, K, V, S>,
{
}

unsafe impl<'a, 'i, K, V, S, M> Sync for Iter<'i, K, V, S, M>
where
    K: 'a + Eq + Hash + Sync,
    V: 'a + Sync,
    S: 'a + BuildHasher + Clone,
    M: Map<'a, K, V, S>,
{
}

impl<'a, K: Eq + Hash, V, S: 'a + BuildHasher + Clone, M: Map<'a, K, V, S>> Iter<'a, K, V, S, M> {
    pub(crate) fn new(map: &'a M) -> Self {
        Self {
            map,
            shard_i: 0,
            current: None,
            marker: PhantomData,
        }
    }
}

impl<'a, K: Eq + Hash, V, S: 'a + BuildHasher + Clone, M: Map<'a, K, V, S>> Iterator
    for Iter<'a, K, V, S, M>
{
    type Item = RefMulti<'a, K, V>;

    fn next(&mut self) -> Option<Self::Item> {
        loop {
            if let Some(current) = self.current.as_mut() {
                if let Some(b) = current.1.next() {
                    return unsafe {
                        let (k, v) = b.as_ref();
                        let guard = current.0.clone();
                        Some(RefMulti::new(guard, k, v.get()))
                    };
                }
            }

            if self.shard_i == self.map._shard_count() {
                return None;
            }

            let guard = unsafe { self.map._yield_read_shard(self.shard_i) };

            let iter = unsafe { guard.iter() };

            self.current = Some((Arc::new(guard), iter));

            self.shard_i += 1;
        }
    }
}

/// Iterator over a DashMap yielding mutable references.
///
/// # Examples
///
/// ```
/// use dashmap::DashMap;
///
/// let map = DashMap::new();
/// map.insert("Johnny", 21);
/// map.iter_mut().for_each(|mut r| *r += 1);
/// assert_eq!(*map.get("Johnny").unwrap(), 22);
/// ```
pub struct IterMut<'a, K, V, S = RandomState, M = DashMap<K, V, S>> {
    map: &'a M,
    shard_i: usize,
    current: Option<GuardIterMut<'a, K, V>>,
    marker: PhantomData<S>,
}

unsafe impl<'a, 'i, K, V, S, M> Send for IterMut<'i, K, V, S, M>
where
    K: 'a + Eq + Hash + Send,
    V: 'a + Send,
    S: 'a + BuildHasher + Clone,
    M: Map<'a, K, V, S>,
{
}

unsafe impl<'a, 'i, K, V, S, M> Sync for IterMut<'i, K, V, S, M>
where
    K: 'a + Eq + Hash + Sync,
    V: 'a + Sync,
    S: 'a + BuildHasher + Clone,
    M: Map<'a, K, V, S>,
{
}

impl<'a, K: Eq + Hash, V, S: 'a + BuildHasher + Clone, M: Map<'a, K, V, S>>
    IterMut<'a, K, V, S, M>
{
    pub(crate) fn new(map: &'a M) -> Self {
        Self {
            map,
            shard_i: 0,
            current: None,
            marker: PhantomData,
        }
    }
}

impl<'a, K: Eq + Hash, V, S: 'a + BuildHasher + Clone, M: Map<'a, K, V, S>> Iterator
    for IterMut<'a, K, V, S, M>
{
    type Item = RefMutMulti<'a, K, V>;

    fn next(&mut self) -> Option<Self::Item> {
        loop {
            if let Some(current) = self.current.as_mut() {
                if let Some(b) = current.1.next() {
                    return unsafe {
                        let (k, v) = b.as_mut();
                        let guard = current.0.clone();
                        Some(RefMutMulti::new(guard, k, v.get_mut()))
                    };
                }
            }

            if self.shard_i == self.map._shard_count() {
                return None;
            }

            let guard = unsafe { self.map._yield_write_shard(self.shard_i) };

            let iter = unsafe { guard.iter() };

            self.current = Some((Arc::new(guard), iter));

            self.shard_i += 1;
        }
    }
}

#[cfg(test)]
mod tests {
    use crate::DashMap;

    #[test]
    fn iter_mut_manual_count() {
        let map = DashMap::new();

        map.insert("Johnny", 21);

        assert_eq!(map.len(), 1);

        let mut c = 0;

        for shard in map.shards() {
            c += unsafe { shard.write().iter().count() };
        }

        assert_eq!(c, 1);
    }

    #[test]
    fn iter_mut_count() {
        let map = DashMap::new();

        map.insert("Johnny", 21);

        assert_eq!(map.len(), 1);

        assert_eq!(map.iter_mut().count(), 1);
    }

    #[test]
    fn iter_count() {
        let map = DashMap::new();

        map.insert("Johnny", 21);

        assert_eq!(map.len(), 1);

        assert_eq!(map.iter().count(), 1);
    }
}

use crate::mapref;
use core::hash::Hash;
use core::ops::Deref;

pub struct Ref<'a, K> {
    inner: mapref::one::Ref<'a, K, ()>,
}

impl<'a, K: Eq + Hash> Ref<'a, K> {
    pub(crate) fn new(inner: mapref::one::Ref<'a, K, ()>) -> Self {
        Self { inner }
    }

    pub fn key(&self) -> &K {
        self.inner.key()
    }
}

impl<'a, K: Eq + Hash> Deref for Ref<'a, K> {
    type Target = K;

    fn deref(&self) -> &K {
        self.key()
    }
}

pub mod multiple;
pub mod one;

use crate::mapref;
use core::hash::Hash;
use core::ops::Deref;

pub struct RefMulti<'a, K> {
    inner: mapref::multiple::RefMulti<'a, K, ()>,
}

impl<'a, K: Eq + Hash> RefMulti<'a, K> {
    pub(crate) fn new(inner: mapref::multiple::RefMulti<'a, K, ()>) -> Self {
        Self { inner }
    }

    pub fn key(&self) -> &K {
        self.inner.key()
    }
}

impl<'a, K: Eq + Hash> Deref for RefMulti<'a, K> {
    type Target = K;

    fn deref(&self) -> &K {
        self.key()
    }
}

use crate::iter_set::{Iter, OwningIter};
#[cfg(feature = "raw-api")]
use crate::lock::RwLock;
use crate::setref::one::Ref;
use crate::DashMap;
#[cfg(feature = "raw-api")]
use crate::HashMap;
use cfg_if::cfg_if;
use core::borrow::Borrow;
use core::fmt;
use core::hash::{BuildHasher, Hash};
use core::iter::FromIterator;
#[cfg(feature = "raw-api")]
use crossbeam_utils::CachePadded;
use std::collections::hash_map::RandomState;

/// DashSet is a thin wrapper around [`DashMap`] using `()` as the value type. It uses
/// methods and types which are more convenient to work with on a set.
///
/// [`DashMap`]: struct.DashMap.html
pub struct DashSet<K, S = RandomState> {
    pub(crate) inner: DashMap<K, (), S>,
}

impl<K: Eq + Hash + fmt::Debug, S: BuildHasher + Clone> fmt::Debug for DashSet<K, S> {
    fn fmt(&self, f: &mut fmt::Formatter<'_>) -> fmt::Result {
        fmt::Debug::fmt(&self.inner, f)
    }
}

impl<K: Eq + Hash + Clone, S: Clone> Clone for DashSet<K, S> {
    fn clone(&self) -> Self {
        Self {
            inner: self.inner.clone(),
        }
    }

    fn clone_from(&mut self, source: &Self) {
        self.inner.clone_from(&source.inner)
    }
}

impl<K, S> Default for DashSet<K, S>
where
    K: Eq + Hash,
    S: Default + BuildHasher + Clone,
{
    fn default() -> Self {
        Self::with_hasher(Default::default())
    }
}

impl<'a, K: 'a + Eq + Hash> DashSet<K, RandomState> {
    /// Creates a new DashSet with a capacity of 0.
    ///
    /// # Examples
    ///
    /// ```
    /// use dashmap::DashSet;
    ///
    /// let games = DashSet::new();
    /// games.insert("Veloren");
    /// ```
    pub fn new() -> Self {
        Self::with_hasher(RandomState::default())
    }

    /// Creates a new DashMap with a specified starting capacity.
    ///
    /// # Examples
    ///
    /// ```
    /// use dashmap::DashSet;
    ///
    /// let numbers = DashSet::with_capacity(2);
    /// numbers.insert(2);
    /// numbers.insert(8);
    /// ```
    pub fn with_capacity(capacity: usize) -> Self {
        Self::with_capacity_and_hasher(capacity, RandomState::default())
    }
}

impl<'a, K: 'a + Eq + Hash, S: BuildHasher + Clone> DashSet<K, S> {
    /// Creates a new DashMap with a capacity of 0 and the provided hasher.
    ///
    /// # Examples
    ///
    /// ```
    /// use dashmap::DashSet;
    /// use std::collections::hash_map::RandomState;
    ///
    /// let s = RandomState::new();
    /// let games = DashSet::with_hasher(s);
    /// games.insert("Veloren");
    /// ```
    pub fn with_hasher(hasher: S) -> Self {
        Self::with_capacity_and_hasher(0, hasher)
    }

    /// Creates a new DashMap with a specified starting capacity and hasher.
    ///
    /// # Examples
    ///
    /// ```
    /// use dashmap::DashSet;
    /// use std::collections::hash_map::RandomState;
    ///
    /// let s = RandomState::new();
    /// let numbers = DashSet::with_capacity_and_hasher(2, s);
    /// numbers.insert(2);
    /// numbers.insert(8);
    /// ```
    pub fn with_capacity_and_hasher(capacity: usize, hasher: S) -> Self {
        Self {
            inner: DashMap::with_capacity_and_hasher(capacity, hasher),
        }
    }

    /// Hash a given item to produce a usize.
    /// Uses the provided or default HashBuilder.
    pub fn hash_usize<T: Hash>(&self, item: &T) -> usize {
        self.inner.hash_usize(item)
    }

    cfg_if! {
        if #[cfg(feature = "raw-api")] {
            /// Allows you to peek at the inner shards that store your data.
            /// You should probably not use this unless you know what you are doing.
            ///
            /// Requires the `raw-api` feature to be enabled.
            ///
            /// # Examples
            ///
            /// ```
            /// use dashmap::DashSet;
            ///
            /// let set = DashSet::<()>::new();
            /// println!("Amount of shards: {}", set.shards().len());
            /// ```
            pub fn shards(&self) -> &[CachePadded<RwLock<HashMap<K, ()>>>] {
                self.inner.shards()
            }
        }
    }

    cfg_if! {
        if #[cfg(feature = "raw-api")] {
            /// Finds which shard a certain key is stored in.
            /// You should probably not use this unless you know what you are doing.
            /// Note that shard selection is dependent on the default or provided HashBuilder.
            ///
            /// Requires the `raw-api` feature to be enabled.
            ///
            /// # Examples
            ///
            /// ```
            /// use dashmap::DashSet;
            ///
            /// let set = DashSet::new();
            /// set.insert("coca-cola");
            /// println!("coca-cola is stored in shard: {}", set.determine_map("coca-cola"));
            /// ```
            pub fn determine_map<Q>(&self, key: &Q) -> usize
            where
                K: Borrow<Q>,
                Q: Hash + Eq + ?Sized,
            {
                self.inner.determine_map(key)
            }
        }
    }

    cfg_if! {
        if #[cfg(feature = "raw-api")] {
            /// Finds which shard a certain hash is stored in.
            ///
            /// Requires the `raw-api` feature to be enabled.
            ///
            /// # Examples
            ///
            /// ```
            /// use dashmap::DashSet;
            ///
            /// let set: DashSet<i32> = DashSet::new();
            /// let key = "key";
            /// let hash = set.hash_usize(&key);
            /// println!("hash is stored in shard: {}", set.determine_shard(hash));
            /// ```
            pub fn determine_shard(&self, hash: usize) -> usize {
                self.inner.determine_shard(hash)
            }
        }
    }

    /// Inserts a key into the set. Returns true if the key was not already in the set.
    ///
    /// # Examples
    ///
    /// ```
    /// use dashmap::DashSet;
    ///
    /// let set = DashSet::new();
    /// set.insert("I am the key!");
    /// ```
    pub fn insert(&self, key: K) -> bool {
        self.inner.insert(key, ()).is_none()
    }

    /// Removes an entry from the map, returning the key if it existed in the map.
    ///
    /// # Examples
    ///
    /// ```
    /// use dashmap::DashSet;
    ///
    /// let soccer_team = DashSet::new();
    /// soccer_team.insert("Jack");
    /// assert_eq!(soccer_team.remove("Jack").unwrap(), "Jack");
    /// ```
    pub fn remove<Q>(&self, key: &Q) -> Option<K>
    where
        K: Borrow<Q>,
        Q: Hash + Eq + ?Sized,
    {
        self.inner.remove(key).map(|(k, _)| k)
    }

    /// Removes an entry from the set, returning the key
    /// if the entry existed and the provided conditional function returned true.
    ///
    /// ```
    /// use dashmap::DashSet;
    ///
    /// let soccer_team = DashSet::new();
    /// soccer_team.insert("Sam");
    /// soccer_team.remove_if("Sam", |player| player.starts_with("Ja"));
    /// assert!(soccer_team.contains("Sam"));
    /// ```
    /// ```
    /// use dashmap::DashSet;
    ///
    /// let soccer_team = DashSet::new();
    /// soccer_team.insert("Sam");
    /// soccer_team.remove_if("Jacob", |player| player.starts_with("Ja"));
    /// assert!(!soccer_team.contains("Jacob"));
    /// ```
    pub fn remove_if<Q>(&self, key: &Q, f: impl FnOnce(&K) -> bool) -> Option<K>
    where
        K: Borrow<Q>,
        Q: Hash + Eq + ?Sized,
    {
        // TODO: Don't create another closure around f
        self.inner.remove_if(key, |k, _| f(k)).map(|(k, _)| k)
    }

    /// Creates an iterator over a DashMap yielding immutable references.
    ///
    /// # Examples
    ///
    /// ```
    /// use dashmap::DashSet;
    ///
    /// let words = DashSet::new();
    /// words.insert("hello");
    /// assert_eq!(words.iter().count(), 1);
    /// ```
    pub fn iter(&'a self) -> Iter<'a, K, S, DashMap<K, (), S>> {
        let iter = self.inner.iter();

        Iter::new(iter)
    }

    /// Get a reference to an entry in the set
    ///
    /// # Examples
    ///
    /// ```
    /// use dashmap::DashSet;
    ///
    /// let youtubers = DashSet::new();
    /// youtubers.insert("Bosnian Bill");
    /// assert_eq!(*youtubers.get("Bosnian Bill").unwrap(), "Bosnian Bill");
    /// ```
    pub fn get<Q>(&'a self, key: &Q) -> Option<Ref<'a, K>>
    where
        K: Borrow<Q>,
        Q: Hash + Eq + ?Sized,
    {
        self.inner.get(key).map(Ref::new)
    }

    /// Remove excess capacity to reduce memory usage.
    pub fn shrink_to_fit(&self) {
        self.inner.shrink_to_fit()
    }

    /// Retain elements that whose predicates return true
    /// and discard elements whose predicates return false.
    ///
    /// # Examples
    ///
    /// ```
    /// use dashmap::DashSet;
    ///
    /// let people = DashSet::new();
    /// people.insert("Albin");
    /// people.insert("Jones");
    /// people.insert("Charlie");
    /// people.retain(|name| name.contains('i'));
    /// assert_eq!(people.len(), 2);
    /// ```
    pub fn retain(&self, mut f: impl FnMut(&K) -> bool) {
        self.inner.retain(|k, _| f(k))
    }

    /// Fetches the total number of keys stored in the set.
    ///
    /// # Examples
    ///
    /// ```
    /// use dashmap::DashSet;
    ///
    /// let people = DashSet::new();
    /// people.insert("Albin");
    /// people.insert("Jones");
    /// people.insert("Charlie");
    /// assert_eq!(people.len(), 3);
    /// ```
    pub fn len(&self) -> usize {
        self.inner.len()
    }

    /// Checks if the set is empty or not.
    ///
    /// # Examples
    ///
    /// ```
    /// use dashmap::DashSet;
    ///
    /// let map = DashSet::<()>::new();
    /// assert!(map.is_empty());
    /// ```
    pub fn is_empty(&self) -> bool {
        self.inner.is_empty()
    }

    /// Removes all keys in the set.
    ///
    /// # Examples
    ///
    /// ```
    /// use dashmap::DashSet;
    ///
    /// let people = DashSet::new();
    /// people.insert("Albin");
    /// assert!(!people.is_empty());
    /// people.clear();
    /// assert!(people.is_empty());
    /// ```
    pub fn clear(&self) {
        self.inner.clear()
    }

    /// Returns how many keys the set can store without reallocating.
    pub fn capacity(&self) -> usize {
        self.inner.capacity()
    }

    /// Checks if the set contains a specific key.
    ///
    /// # Examples
    ///
    /// ```
    /// use dashmap::DashSet;
    ///
    /// let people = DashSet::new();
    /// people.insert("Dakota Cherries");
    /// assert!(people.contains("Dakota Cherries"));
    /// ```
    pub fn contains<Q>(&self, key: &Q) -> bool
    where
        K: Borrow<Q>,
        Q: Hash + Eq + ?Sized,
    {
        self.inner.contains_key(key)
    }
}

impl<K: Eq + Hash, S: BuildHasher + Clone> IntoIterator for DashSet<K, S> {
    type Item = K;

    type IntoIter = OwningIter<K, S>;

    fn into_iter(self) -> Self::IntoIter {
        OwningIter::new(self.inner.into_iter())
    }
}

impl<K: Eq + Hash, S: BuildHasher + Clone> Extend<K> for DashSet<K, S> {
    fn extend<T: IntoIterator<Item = K>>(&mut self, iter: T) {
        let iter = iter.into_iter().map(|k| (k, ()));

        self.inner.extend(iter)
    }
}

impl<K: Eq + Hash, S: BuildHasher + Clone + Default> FromIterator<K> for DashSet<K, S> {
    fn from_iter<I: IntoIterator<Item = K>>(iter: I) -> Self {
        let mut set = DashSet::default();

        set.extend(iter);

        set
    }
}

#[cfg(feature = "typesize")]
impl<K, S> typesize::TypeSize for DashSet<K, S>
where
    K: typesize::TypeSize + Eq + Hash,
    S: typesize::TypeSize + Clone + BuildHasher,
{
    fn extra_size(&self) -> usize {
        self.inner.extra_size()
    }

    typesize::if_typesize_details! {
        fn get_collection_item_count(&self) -> Option<usize> {
            Some(self.len())
        }
    }
}

#[cfg(test)]
mod tests {
    use crate::DashSet;

    #[test]
    fn test_basic() {
        let set = DashSet::new();

        set.insert(0);

        assert_eq!(set.get(&0).as_deref(), Some(&0));
    }

    #[test]
    fn test_default() {
        let set: DashSet<u32> = DashSet::default();

        set.insert(0);

        assert_eq!(set.get(&0).as_deref(), Some(&0));
    }

    #[test]
    fn test_multiple_hashes() {
        let set = DashSet::<u32>::default();

        for i in 0..100 {
            assert!(set.insert(i));
        }

        for i in 0..100 {
            assert!(!set.insert(i));
        }

        for i in 0..100 {
            assert_eq!(Some(i), set.remove(&i));
        }

        for i in 0..100 {
            assert_eq!(None, set.remove(&i));
        }
    }
}

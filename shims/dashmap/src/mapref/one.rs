use crate::lock::{RwLockReadGuard, RwLockWriteGuard};
use crate::HashMap;
use core::hash::Hash;
use core::ops::{Deref, DerefMut};
use std::fmt::{Debug, Formatter};

pub struct Ref<'a, K, V> {
    _guard: RwLockReadGuard<'a, HashMap<K, V>>,
    k: *const K,
    v: *const V,
}

unsafe impl<'a, K: Eq + Hash + Sync, V: Sync> Send for Ref<'a, K, V> {}
unsafe impl<'a, K: Eq + Hash + Sync, V: Sync> Sync for Ref<'a, K, V> {}

impl<'a, K: Eq + Hash, V> Ref<'a, K, V> {
    pub(crate) unsafe fn new(
        guard: RwLockReadGuard<'a, HashMap<K, V>>,
        k: *const K,
        v: *const V,
    ) -> Self {
        Self {
            _guard: guard,
            k,
            v,
        }
    }

    pub fn key(&self) -> &K {
        self.pair().0
    }

    pub fn value(&self) -> &V {
        self.pair().1
    }

    pub fn pair(&self) -> (&K, &V) {
        unsafe { (&*self.k, &*self.v) }
    }

    pub fn map<F, T>(self, f: F) -> MappedRef<'a, K, V, T>
    where
        F: FnOnce(&V) -> &T,
    {
        MappedRef {
            _guard: self._guard,
            k: self.k,
            v: f(unsafe { &*self.v }),
        }
    }

    pub fn try_map<F, T>(self, f: F) -> Result<MappedRef<'a, K, V, T>, Self>
    where
        F: FnOnce(&V) -> Option<&T>,
    {
        if let Some(v) = f(unsafe { &*self.v }) {
            Ok(MappedRef {
                _guard: self._guard,
                k: self.k,
                v,
            })
        } else {
            Err(self)
        }
    }
}

impl<'a, K: Eq + Hash + Debug, V: Debug> Debug for Ref<'a, K, V> {
    fn fmt(&self, f: &mut Formatter<'_>) -> std::fmt::Result {
        f.debug_struct("Ref")
            .field("k", &self.k)
            .field("v", &self.v)
            .finish()
    }
}

impl<'a, K: Eq + Hash, V> Deref for Ref<'a, K, V> {
    type Target = V;

    fn deref(&self) -> &V {
        self.value()
    }
}

pub struct RefMut<'a, K, V> {
    guard: RwLockWriteGuard<'a, HashMap<K, V>>,
    k: *const K,
    v: *mut V,
}

unsafe impl<'a, K: Eq + Hash + Sync, V: Sync> Send for RefMut<'a, K, V> {}
unsafe impl<'a, K: Eq + Hash + Sync, V: Sync> Sync for RefMut<'a, K, V> {}

impl<'a, K: Eq + Hash, V> RefMut<'a, K, V> {
    pub(crate) unsafe fn new(
        guard: RwLockWriteGuard<'a, HashMap<K, V>>,
        k: *const K,
        v: *mut V,
    ) -> Self {
        Self { guard, k, v }
    }

    pub fn key(&self) -> &K {
        self.pair().0
    }

    pub fn value(&self) -> &V {
        self.pair().1
    }

    pub fn value_mut(&mut self) -> &mut V {
        self.pair_mut().1
    }

    pub fn pair(&self) -> (&K, &V) {
        unsafe { (&*self.k, &*self.v) }
    }

    pub fn pair_mut(&mut self) -> (&K, &mut V) {
        unsafe { (&*self.k, &mut *self.v) }
    }

    pub fn downgrade(self) -> Ref<'a, K, V> {
        unsafe { Ref::new(RwLockWriteGuard::downgrade(self.guard), self.k, self.v) }
    }

    pub fn map<F, T>(self, f: F) -> MappedRefMut<'a, K, V, T>
    where
        F: FnOnce(&mut V) -> &mut T,
    {
        MappedRefMut {
            _guard: self.guard,
            k: self.k,
            v: f(unsafe { &mut *self.v }),
        }
    }

    pub fn try_map<F, T>(self, f: F) -> Result<MappedRefMut<'a, K, V, T>, Self>
    where
        F: FnOnce(&mut V) -> Option<&mut T>,
    {
        let v = match f(unsafe { &mut *(self.v as *mut _) }) {
            Some(v) => v,
            None => return Err(self),
        };
        let guard = self.guard;
        let k = self.k;
        Ok(MappedRefMut {
            _guard: guard,
            k,
            v,
        })
    }
}

impl<'a, K: Eq + Hash + Debug, V: Debug> Debug for RefMut<'a, K, V> {
    fn fmt(&self, f: &mut Formatter<'_>) -> std::fmt::Result {
        f.debug_struct("RefMut")
            .field("k", &self.k)
            .field("v", &self.v)
            .finish()
    }
}

impl<'a, K: Eq + Hash, V> Deref for RefMut<'a, K, V> {
    type Target = V;

    fn deref(&self) -> &V {
        self.value()
    }
}

impl<'a, K: Eq + Hash, V> DerefMut for RefMut<'a, K, V> {
    fn deref_mut(&mut self) -> &mut V {
        self.value_mut()
    }
}

pub struct MappedRef<'a, K, V, T> {
    _guard: RwLockReadGuard<'a, HashMap<K, V>>,
    k: *const K,
    v: *const T,
}

impl<'a, K: Eq + Hash, V, T> MappedRef<'a, K, V, T> {
    pub fn key(&self) -> &K {
        self.pair().0
    }

    pub fn value(&self) -> &T {
        self.pair().1
    }

    pub fn pair(&self) -> (&K, &T) {
        unsafe { (&*self.k, &*self.v) }
    }

    pub fn map<F, T2>(self, f: F) -> MappedRef<'a, K, V, T2>
    where
        F: FnOnce(&T) -> &T2,
    {
        MappedRef {
            _guard: self._guard,
            k: self.k,
            v: f(unsafe { &*self.v }),
        }
    }

    pub fn try_map<F, T2>(self, f: F) -> Result<MappedRef<'a, K, V, T2>, Self>
    where
        F: FnOnce(&T) -> Option<&T2>,
    {
        let v = match f(unsafe { &*self.v }) {
            Some(v) => v,
            None => return Err(self),
        };
        let guard = self._guard;
        Ok(MappedRef {
            _guard: guard,
            k: self.k,
            v,
        })
    }
}

impl<'a, K: Eq + Hash + Debug, V, T: Debug> Debug for MappedRef<'a, K, V, T> {
    fn fmt(&self, f: &mut Formatter<'_>) -> std::fmt::Result {
        f.debug_struct("MappedRef")
            .field("k", &self.k)
            .field("v", &self.v)
            .finish()
    }
}

impl<'a, K: Eq + Hash, V, T> Deref for MappedRef<'a, K, V, T> {
    type Target = T;

    fn deref(&self) -> &T {
        self.value()
    }
}

impl<'a, K: Eq + Hash, V, T: std::fmt::Display> std::fmt::Display for MappedRef<'a, K, V, T> {
    fn fmt(&self, f: &mut std::fmt::Formatter<'_>) -> std::fmt::Result {
        std::fmt::Display::fmt(self.value(), f)
    }
}

impl<'a, K: Eq + Hash, V, T: AsRef<TDeref>, TDeref: ?Sized> AsRef<TDeref>
    for MappedRef<'a, K, V, T>
{
    fn as_ref(&self) -> &TDeref {
        self.value().as_ref()
    }
}

pub struct MappedRefMut<'a, K, V, T> {
    _guard: RwLockWriteGuard<'a, HashMap<K, V>>,
    k: *const K,
    v: *mut T,
}

impl<'a, K: Eq + Hash, V, T> MappedRefMut<'a, K, V, T> {
    pub fn key(&self) -> &K {
        self.pair().0
    }

    pub fn value(&self) -> &T {
        self.pair().1
    }

    pub fn value_mut(&mut self) -> &mut T {
        self.pair_mut().1
    }

    pub fn pair(&self) -> (&K, &T) {
        unsafe { (&*self.k, &*self.v) }
    }

    pub fn pair_mut(&mut self) -> (&K, &mut T) {
        unsafe { (&*self.k, &mut *self.v) }
    }

    pub fn map<F, T2>(self, f: F) -> MappedRefMut<'a, K, V, T2>
    where
        F: FnOnce(&mut T) -> &mut T2,
    {
        MappedRefMut {
            _guard: self._guard,
            k: self.k,
            v: f(unsafe { &mut *self.v }),
        }
    }

    pub fn try_map<F, T2>(self, f: F) -> Result<MappedRefMut<'a, K, V, T2>, Self>
    where
        F: FnOnce(&mut T) -> Option<&mut T2>,
    {
        let v = match f(unsafe { &mut *(self.v as *mut _) }) {
            Some(v) => v,
            None => return Err(self),
        };
        let guard = self._guard;
        let k = self.k;
        Ok(MappedRefMut {
            _guard: guard,
            k,
            v,
        })
    }
}

impl<'a, K: Eq + Hash + Debug, V, T: Debug> Debug for MappedRefMut<'a, K, V, T> {
    fn fmt(&self, f: &mut Formatter<'_>) -> std::fmt::Result {
        f.debug_struct("MappedRefMut")
            .field("k", &self.k)
            .field("v", &self.v)
            .finish()
    }
}

impl<'a, K: Eq + Hash, V, T> Deref for MappedRefMut<'a, K, V, T> {
    type Target = T;

    fn deref(&self) -> &T {
        self.value()
    }
}

impl<'a, K: Eq + Hash, V, T> DerefMut for MappedRefMut<'a, K, V, T> {
    fn deref_mut(&mut self) -> &mut T {
        self.value_mut()
    }
}

pub mod entry;
pub mod multiple;
pub mod one;

use super::one::RefMut;
use crate::lock::RwLockWriteGuard;
use crate::util::SharedValue;
use crate::HashMap;
use core::hash::Hash;
use core::mem;

pub enum Entry<'a, K, V> {
    Occupied(OccupiedEntry<'a, K, V>),
    Vacant(VacantEntry<'a, K, V>),
}

impl<'a, K: Eq + Hash, V> Entry<'a, K, V> {
    /// Apply a function to the stored value if it exists.
    pub fn and_modify(self, f: impl FnOnce(&mut V)) -> Self {
        match self {
            Entry::Occupied(mut entry) => {
                f(entry.get_mut());

                Entry::Occupied(entry)
            }

            Entry::Vacant(entry) => Entry::Vacant(entry),
        }
    }

    /// Get the key of the entry.
    pub fn key(&self) -> &K {
        match *self {
            Entry::Occupied(ref entry) => entry.key(),
            Entry::Vacant(ref entry) => entry.key(),
        }
    }

    /// Into the key of the entry.
    pub fn into_key(self) -> K {
        match self {
            Entry::Occupied(entry) => entry.into_key(),
            Entry::Vacant(entry) => entry.into_key(),
        }
    }

    /// Return a mutable reference to the element if it exists,
    /// otherwise insert the default and return a mutable reference to that.
    pub fn or_default(self) -> RefMut<'a, K, V>
    where
        V: Default,
    {
        match self {
            Entry::Occupied(entry) => entry.into_ref(),
            Entry::Vacant(entry) => entry.insert(V::default()),
        }
    }

    /// Return a mutable reference to the element if it exists,
    /// otherwise a provided value and return a mutable reference to that.
    pub fn or_insert(self, value: V) -> RefMut<'a, K, V> {
        match self {
            Entry::Occupied(entry) => entry.into_ref(),
            Entry::Vacant(entry) => entry.insert(value),
        }
    }

    /// Return a mutable reference to the element if it exists,
    /// otherwise insert the result of a provided function and return a mutable reference to that.
    pub fn or_insert_with(self, value: impl FnOnce() -> V) -> RefMut<'a, K, V> {
        match self {
            Entry::Occupied(entry) => entry.into_ref(),
            Entry::Vacant(entry) => entry.insert(value()),
        }
    }

    pub fn or_try_insert_with<E>(
        self,
        value: impl FnOnce() -> Result<V, E>,
    ) -> Result<RefMut<'a, K, V>, E> {
        match self {
            Entry::Occupied(entry) => Ok(entry.into_ref()),
            Entry::Vacant(entry) => Ok(entry.insert(value()?)),
        }
    }

    /// Sets the value of the entry, and returns a reference to the inserted value.
    pub fn insert(self, value: V) -> RefMut<'a, K, V> {
        match self {
            Entry::Occupied(mut entry) => {
                entry.insert(value);
                entry.into_ref()
            }
            Entry::Vacant(entry) => entry.insert(value),
        }
    }

    /// Sets the value of the entry, and returns an OccupiedEntry.
    ///
    /// If you are not interested in the occupied entry,
    /// consider [`insert`] as it doesn't need to clone the key.
    ///
    /// [`insert`]: Entry::insert
    pub fn insert_entry(self, value: V) -> OccupiedEntry<'a, K, V>
    where
        K: Clone,
    {
        match self {
            Entry::Occupied(mut entry) => {
                entry.insert(value);
                entry
            }
            Entry::Vacant(entry) => entry.insert_entry(value),
        }
    }
}

pub struct VacantEntry<'a, K, V> {
    shard: RwLockWriteGuard<'a, HashMap<K, V>>,
    key: K,
    hash: u64,
    slot: hashbrown::raw::InsertSlot,
}

unsafe impl<'a, K: Eq + Hash + Sync, V: Sync> Send for VacantEntry<'a, K, V> {}
unsafe impl<'a, K: Eq + Hash + Sync, V: Sync> Sync for VacantEntry<'a, K, V> {}

impl<'a, K: Eq + Hash, V> VacantEntry<'a, K, V> {
    pub(crate) unsafe fn new(
        shard: RwLockWriteGuard<'a, HashMap<K, V>>,
        key: K,
        hash: u64,
        slot: hashbrown::raw::InsertSlot,
    ) -> Self {
        Self {
            shard,
            key,
            hash,
            slot,
        }
    }

    pub fn insert(mut self, value: V) -> RefMut<'a, K, V> {
        unsafe {
            let occupied = self.shard.insert_in_slot(
                self.hash,
                self.slot,
                (self.key, SharedValue::new(value)),
            );

            let (k, v) = occupied.as_ref();

            RefMut::new(self.shard, k, v.as_ptr())
        }
    }

    /// Sets the value of the entry with the VacantEntry’s key, and returns an OccupiedEntry.
    pub fn insert_entry(mut self, value: V) -> OccupiedEntry<'a, K, V>
    where
        K: Clone,
    {
        unsafe {
            let bucket = self.shard.insert_in_slot(
                self.hash,
                self.slot,
                (self.key.clone(), SharedValue::new(value)),
            );

            OccupiedEntry::new(self.shard, self.key, bucket)
        }
    }

    pub fn into_key(self) -> K {
        self.key
    }

    pub fn key(&self) -> &K {
        &self.key
    }
}

pub struct OccupiedEntry<'a, K, V> {
    shard: RwLockWriteGuard<'a, HashMap<K, V>>,
    bucket: hashbrown::raw::Bucket<(K, SharedValue<V>)>,
    key: K,
}

unsafe impl<'a, K: Eq + Hash + Sync, V: Sync> Send for OccupiedEntry<'a, K, V> {}
unsafe impl<'a, K: Eq + Hash + Sync, V: Sync> Sync for OccupiedEntry<'a, K, V> {}

impl<'a, K: Eq + Hash, V> OccupiedEntry<'a, K, V> {
    pub(crate) unsafe fn new(
        shard: RwLockWriteGuard<'a, HashMap<K, V>>,
        key: K,
        bucket: hashbrown::raw::Bucket<(K, SharedValue<V>)>,
    ) -> Self {
        Self { shard, bucket, key }
    }

    pub fn get(&self) -> &V {
        unsafe { self.bucket.as_ref().1.get() }
    }

    pub fn get_mut(&mut self) -> &mut V {
        unsafe { self.bucket.as_mut().1.get_mut() }
    }

    pub fn insert(&mut self, value: V) -> V {
        mem::replace(self.get_mut(), value)
    }

    pub fn into_ref(self) -> RefMut<'a, K, V> {
        unsafe {
            let (k, v) = self.bucket.as_ref();
            RefMut::new(self.shard, k, v.as_ptr())
        }
    }

    pub fn into_key(self) -> K {
        self.key
    }

    pub fn key(&self) -> &K {
        unsafe { &self.bucket.as_ref().0 }
    }

    pub fn remove(mut self) -> V {
        let ((_k, v), _) = unsafe { self.shard.remove(self.bucket) };
        v.into_inner()
    }

    pub fn remove_entry(mut self) -> (K, V) {
        let ((k, v), _) = unsafe { self.shard.remove(self.bucket) };
        (k, v.into_inner())
    }

    pub fn replace_entry(self, value: V) -> (K, V) {
        let (k, v) = mem::replace(
            unsafe { self.bucket.as_mut() },
            (self.key, SharedValue::new(value)),
        );
        (k, v.into_inner())
    }
}

#[cfg(test)]
mod tests {
    use crate::DashMap;

    use super::*;

    #[test]
    fn test_insert_entry_into_vacant() {
        let map: DashMap<u32, u32> = DashMap::new();

        let entry = map.entry(1);

        assert!(matches!(entry, Entry::Vacant(_)));

        let entry = entry.insert_entry(2);

        assert_eq!(*entry.get(), 2);

        drop(entry);

        assert_eq!(*map.get(&1).unwrap(), 2);
    }

    #[test]
    fn test_insert_entry_into_occupied() {
        let map: DashMap<u32, u32> = DashMap::new();

        map.insert(1, 1000);

        let entry = map.entry(1);

        assert!(matches!(&entry, Entry::Occupied(entry) if *entry.get() == 1000));

        let entry = entry.insert_entry(2);

        assert_eq!(*entry.get(), 2);

        drop(entry);

        assert_eq!(*map.get(&1).unwrap(), 2);
    }
}

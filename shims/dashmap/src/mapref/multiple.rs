use crate::lock::{RwLockReadGuard, RwLockWriteGuard};
use crate::HashMap;
use core::hash::Hash;
use core::ops::{Deref, DerefMut};
use std::sync::Arc;

pub struct RefMulti<'a, K, V> {
    _guard: Arc<RwLockReadGuard<'a, HashMap<K, V>>>,
    k: *const K,
    v: *const V,
}

unsafe impl<'a, K: Eq + Hash + Sync, V: Sync> Send for RefMulti<'a, K, V> {}
unsafe impl<'a, K: Eq + Hash + Sync, V: Sync> Sync for RefMulti<'a, K, V> {}

impl<'a, K: Eq + Hash, V> RefMulti<'a, K, V> {
    pub(crate) unsafe fn new(
        guard: Arc<RwLockReadGuard<'a, HashMap<K, V>>>,
        k: *const K,
        v: *const V,
    ) -> Self {
        Self {
            _guard: guard,
            k,
            v,
        }
    }

    pub fn key(&self) -> &K {
        self.pair().0
    }

    pub fn value(&self) -> &V {
        self.pair().1
    }

    pub fn pair(&self) -> (&K, &V) {
        unsafe { (&*self.k, &*self.v) }
    }
}

impl<'a, K: Eq + Hash, V> Deref for RefMulti<'a, K, V> {
    type Target = V;

    fn deref(&self) -> &V {
        self.value()
    }
}

pub struct RefMutMulti<'a, K, V> {
    _guard: Arc<RwLockWriteGuard<'a, HashMap<K, V>>>,
    k: *const K,
    v: *mut V,
}

unsafe impl<'a, K: Eq + Hash + Sync, V: Sync> Send for RefMutMulti<'a, K, V> {}
unsafe impl<'a, K: Eq + Hash + Sync, V: Sync> Sync for RefMutMulti<'a, K, V> {}

impl<'a, K: Eq + Hash, V> RefMutMulti<'a, K, V> {
    pub(crate) unsafe fn new(
        guard: Arc<RwLockWriteGuard<'a, HashMap<K, V>>>,
        k: *const K,
        v: *mut V,
    ) -> Self {
        Self {
            _guard: guard,
            k,
            v,
        }
    }

    pub fn key(&self) -> &K {
        self.pair().0
    }

    pub fn value(&self) -> &V {
        self.pair().1
    }

    pub fn value_mut(&mut self) -> &mut V {
        self.pair_mut().1
    }

    pub fn pair(&self) -> (&K, &V) {
        unsafe { (&*self.k, &*self.v) }
    }

    pub fn pair_mut(&mut self) -> (&K, &mut V) {
        unsafe { (&*self.k, &mut *self.v) }
    }
}

impl<'a, K: Eq + Hash, V> Deref for RefMutMulti<'a, K, V> {
    type Target = V;

    fn deref(&self) -> &V {
        self.value()
    }
}

impl<'a, K: Eq + Hash, V> DerefMut for RefMutMulti<'a, K, V> {
    fn deref_mut(&mut self) -> &mut V {
        self.value_mut()
    }
}

use crate::{mapref, setref, DashMap, DashSet};
use core::fmt;
use core::hash::{BuildHasher, Hash};
use core::marker::PhantomData;
use serde::de::{Deserialize, MapAccess, SeqAccess, Visitor};
use serde::ser::{Serialize, SerializeMap, SerializeSeq, Serializer};
use serde::Deserializer;

pub struct DashMapVisitor<K, V, S> {
    marker: PhantomData<fn() -> DashMap<K, V, S>>,
}

impl<K, V, S> DashMapVisitor<K, V, S>
where
    K: Eq + Hash,
    S: BuildHasher + Clone,
{
    fn new() -> Self {
        DashMapVisitor {
            marker: PhantomData,
        }
    }
}

impl<'de, K, V, S> Visitor<'de> for DashMapVisitor<K, V, S>
where
    K: Deserialize<'de> + Eq + Hash,
    V: Deserialize<'de>,
    S: BuildHasher + Clone + Default,
{
    type Value = DashMap<K, V, S>;

    fn expecting(&self, formatter: &mut fmt::Formatter) -> fmt::Result {
        formatter.write_str("a DashMap")
    }

    fn visit_map<M>(self, mut access: M) -> Result<Self::Value, M::Error>
    where
        M: MapAccess<'de>,
    {
        let map =
            DashMap::with_capacity_and_hasher(access.size_hint().unwrap_or(0), Default::default());

        while let Some((key, value)) = access.next_entry()? {
            map.insert(key, value);
        }

        Ok(map)
    }
}

impl<'de, K, V, S> Deserialize<'de> for DashMap<K, V, S>
where
    K: Deserialize<'de> + Eq + Hash,
    V: Deserialize<'de>,
    S: BuildHasher + Clone + Default,
{
    fn deserialize<D>(deserializer: D) -> Result<Self, D::Error>
    where
        D: Deserializer<'de>,
    {
        deserializer.deserialize_map(DashMapVisitor::<K, V, S>::new())
    }
}

impl<K, V, H> Serialize for DashMap<K, V, H>
where
    K: Serialize + Eq + Hash,
    V: Serialize,
    H: BuildHasher + Clone,
{
    fn serialize<S>(&self, serializer: S) -> Result<S::Ok, S::Error>
    where
        S: Serializer,
    {
        let mut map = serializer.serialize_map(Some(self.len()))?;

        for ref_multi in self.iter() {
            map.serialize_entry(ref_multi.key(), ref_multi.value())?;
        }

        map.end()
    }
}

pub struct DashSetVisitor<K, S> {
    marker: PhantomData<fn() -> DashSet<K, S>>,
}

impl<K, S> DashSetVisitor<K, S>
where
    K: Eq + Hash,
    S: BuildHasher + Clone,
{
    fn new() -> Self {
        DashSetVisitor {
            marker: PhantomData,
        }
    }
}

impl<'de, K, S> Visitor<'de> for DashSetVisitor<K, S>
where
    K: Deserialize<'de> + Eq + Hash,
    S: BuildHasher + Clone + Default,
{
    type Value = DashSet<K, S>;

    fn expecting(&self, formatter: &mut fmt::Formatter) -> fmt::Result {
        formatter.write_str("a DashSet")
    }

    fn visit_seq<M>(self, mut access: M) -> Result<Self::Value, M::Error>
    where
        M: SeqAccess<'de>,
    {
        let map =
            DashSet::with_capacity_and_hasher(access.size_hint().unwrap_or(0), Default::default());

        while let Some(key) = access.next_element()? {
            map.insert(key);
        }

        Ok(map)
    }
}

impl<'de, K, S> Deserialize<'de> for DashSet<K, S>
where
    K: Deserialize<'de> + Eq + Hash,
    S: BuildHasher + Clone + Default,
{
    fn deserialize<D>(deserializer: D) -> Result<Self, D::Error>
    where
        D: Deserializer<'de>,
    {
        deserializer.deserialize_seq(DashSetVisitor::<K, S>::new())
    }
}

impl<K, H> Serialize for DashSet<K, H>
where
    K: Serialize + Eq + Hash,
    H: BuildHasher + Clone,
{
    fn serialize<S>(&self, serializer: S) -> Result<S::Ok, S::Error>
    where
        S: Serializer,
    {
        let mut seq = serializer.serialize_seq(Some(self.len()))?;

        for ref_multi in self.iter() {
            seq.serialize_element(ref_multi.key())?;
        }

        seq.end()
    }
}

macro_rules! serialize_impl {
    () => {
        fn serialize<Ser>(&self, serializer: Ser) -> Result<Ser::Ok, Ser::Error>
        where
            Ser: serde::Serializer,
        {
            std::ops::Deref::deref(self).serialize(serializer)
        }
    };
}

// Map
impl<'a, K: Eq + Hash, V: Serialize> Serialize for mapref::multiple::RefMulti<'a, K, V> {
    serialize_impl! {}
}

impl<'a, K: Eq + Hash, V: Serialize> Serialize for mapref::multiple::RefMutMulti<'a, K, V> {
    serialize_impl! {}
}

impl<'a, K: Eq + Hash, V: Serialize> Serialize for mapref::one::Ref<'a, K, V> {
    serialize_impl! {}
}

impl<'a, K: Eq + Hash, V: Serialize> Serialize for mapref::one::RefMut<'a, K, V> {
    serialize_impl! {}
}

impl<'a, K: Eq + Hash, V, T: Serialize> Serialize for mapref::one::MappedRef<'a, K, V, T> {
    serialize_impl! {}
}

impl<'a, K: Eq + Hash, V, T: Serialize> Serialize for mapref::one::MappedRefMut<'a, K, V, T> {
    serialize_impl! {}
}

// Set
impl<'a, V: Hash + Eq + Serialize> Serialize for setref::multiple::RefMulti<'a, V> {
    serialize_impl! {}
}

impl<'a, V: Hash + Eq + Serialize> Serialize for setref::one::Ref<'a, V> {
    serialize_impl! {}
}

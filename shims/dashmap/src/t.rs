//! Central map trait to ease modifications and extensions down the road.

use crate::iter::{Iter, IterMut};
use crate::lock::{RwLockReadGuard, RwLockWriteGuard};
use crate::mapref::entry::Entry;
use crate::mapref::one::{Ref, RefMut};
use crate::try_result::TryResult;
use crate::HashMap;
use core::borrow::Borrow;
use core::hash::{BuildHasher, Hash};

/// Implementation detail that is exposed due to generic constraints in public types.
pub trait Map<'a, K: 'a + Eq + Hash, V: 'a, S: 'a + Clone + BuildHasher> {
    fn _shard_count(&self) -> usize;

    /// # Safety
    ///
    /// The index must not be out of bounds.
    unsafe fn _get_read_shard(&'a self, i: usize) -> &'a HashMap<K, V>;

    /// # Safety
    ///
    /// The index must not be out of bounds.
    unsafe fn _yield_read_shard(&'a self, i: usize) -> RwLockReadGuard<'a, HashMap<K, V>>;

    /// # Safety
    ///
    /// The index must not be out of bounds.
    unsafe fn _yield_write_shard(&'a self, i: usize) -> RwLockWriteGuard<'a, HashMap<K, V>>;

    /// # Safety
    ///
    /// The index must not be out of bounds.
    unsafe fn _try_yield_read_shard(
        &'a self,
        i: usize,
    ) -> Option<RwLockReadGuard<'a, HashMap<K, V>>>;

    /// # Safety
    ///
    /// The index must not be out of bounds.
    unsafe fn _try_yield_write_shard(
        &'a self,
        i: usize,
    ) -> Option<RwLockWriteGuard<'a, HashMap<K, V>>>;

    fn _insert(&self, key: K, value: V) -> Option<V>;

    fn _remove<Q>(&self, key: &Q) -> Option<(K, V)>
    where
        K: Borrow<Q>,
        Q: Hash + Eq + ?Sized;

    fn _remove_if<Q>(&self, key: &Q, f: impl FnOnce(&K, &V) -> bool) -> Option<(K, V)>
    where
        K: Borrow<Q>,
        Q: Hash + Eq + ?Sized;

    fn _remove_if_mut<Q>(&self, key: &Q, f: impl FnOnce(&K, &mut V) -> bool) -> Option<(K, V)>
    where
        K: Borrow<Q>,
        Q: Hash + Eq + ?Sized;

    fn _iter(&'a self) -> Iter<'a, K, V, S, Self>
    where
        Self: Sized;

    fn _iter_mut(&'a self) -> IterMut<'a, K, V, S, Self>
    where
        Self: Sized;

    fn _get<Q>(&'a self, key: &Q) -> Option<Ref<'a, K, V>>
    where
        K: Borrow<Q>,
        Q: Hash + Eq + ?Sized;

    fn _get_mut<Q>(&'a self, key: &Q) -> Option<RefMut<'a, K, V>>
    where
        K: Borrow<Q>,
        Q: Hash + Eq + ?Sized;

    fn _try_get<Q>(&'a self, key: &Q) -> TryResult<Ref<'a, K, V>>
    where
        K: Borrow<Q>,
        Q: Hash + Eq + ?Sized;

    fn _try_get_mut<Q>(&'a self, key: &Q) -> TryResult<RefMut<'a, K, V>>
    where
        K: Borrow<Q>,
        Q: Hash + Eq + ?Sized;

    fn _shrink_to_fit(&self);

    fn _retain(&self, f: impl FnMut(&K, &mut V) -> bool);

    fn _len(&self) -> usize;

    fn _capacity(&self) -> usize;

    fn _alter<Q>(&self, key: &Q, f: impl FnOnce(&K, V) -> V)
    where
        K: Borrow<Q>,
        Q: Hash + Eq + ?Sized;

    fn _alter_all(&self, f: impl FnMut(&K, V) -> V);

    fn _view<Q, R>(&self, key: &Q, f: impl FnOnce(&K, &V) -> R) -> Option<R>
    where
        K: Borrow<Q>,
        Q: Hash + Eq + ?Sized;

    fn _entry(&'a self, key: K) -> Entry<'a, K, V>;

    fn _try_entry(&'a self, key: K) -> Option<Entry<'a, K, V>>;

    fn _hasher(&self) -> S;

    // provided
    fn _clear(&self) {
        self._retain(|_, _| false)
    }

    fn _contains_key<Q>(&'a self, key: &Q) -> bool
    where
        K: Borrow<Q>,
        Q: Hash + Eq + ?Sized,
    {
        self._get(key).is_some()
    }

    fn _is_empty(&self) -> bool {
        self._len() == 0
    }
}

use crate::lock::RwLock;
use crate::t::Map;
use crate::{DashMap, HashMap};
use cfg_if::cfg_if;
use core::borrow::Borrow;
use core::fmt;
use core::hash::{BuildHasher, Hash};
use crossbeam_utils::CachePadded;
use std::collections::hash_map::RandomState;

/// A read-only view into a `DashMap`. Allows to obtain raw references to the stored values.
pub struct ReadOnlyView<K, V, S = RandomState> {
    pub(crate) map: DashMap<K, V, S>,
}

impl<K: Eq + Hash + Clone, V: Clone, S: Clone> Clone for ReadOnlyView<K, V, S> {
    fn clone(&self) -> Self {
        Self {
            map: self.map.clone(),
        }
    }
}

impl<K: Eq + Hash + fmt::Debug, V: fmt::Debug, S: BuildHasher + Clone> fmt::Debug
    for ReadOnlyView<K, V, S>
{
    fn fmt(&self, f: &mut fmt::Formatter<'_>) -> fmt::Result {
        self.map.fmt(f)
    }
}

impl<K, V, S> ReadOnlyView<K, V, S> {
    pub(crate) fn new(map: DashMap<K, V, S>) -> Self {
        Self { map }
    }

    /// Consumes this `ReadOnlyView`, returning the underlying `DashMap`.
    pub fn into_inner(self) -> DashMap<K, V, S> {
        self.map
    }
}

impl<'a, K: 'a + Eq + Hash, V: 'a, S: BuildHasher + Clone> ReadOnlyView<K, V, S> {
    /// Returns the number of elements in the map.
    pub fn len(&self) -> usize {
        self.map.len()
    }

    /// Returns `true` if the map contains no elements.
    pub fn is_empty(&self) -> bool {
        self.map.is_empty()
    }

    /// Returns the number of elements the map can hold without reallocating.
    pub fn capacity(&self) -> usize {
        self.map.capacity()
    }

    /// Returns `true` if the map contains a value for the specified key.
    pub fn contains_key<Q>(&'a self, key: &Q) -> bool
    where
        K: Borrow<Q>,
        Q: Hash + Eq + ?Sized,
    {
        self.get(key).is_some()
    }

    /// Returns a reference to the value corresponding to the key.
    pub fn get<Q>(&'a self, key: &Q) -> Option<&'a V>
    where
        K: Borrow<Q>,
        Q: Hash + Eq + ?Sized,
    {
        self.get_key_value(key).map(|(_k, v)| v)
    }

    /// Returns the key-value pair corresponding to the supplied key.
    pub fn get_key_value<Q>(&'a self, key: &Q) -> Option<(&'a K, &'a V)>
    where
        K: Borrow<Q>,
        Q: Hash + Eq + ?Sized,
    {
        let hash = self.map.hash_u64(&key);

        let idx = self.map.determine_shard(hash as usize);

        let shard = unsafe { self.map._get_read_shard(idx) };

        shard.find(hash, |(k, _v)| key == k.borrow()).map(|b| {
            let (k, v) = unsafe { b.as_ref() };
            (k, v.get())
        })
    }

    /// An iterator visiting all key-value pairs in arbitrary order. The iterator element type is `(&'a K, &'a V)`.
    pub fn iter(&'a self) -> impl Iterator<Item = (&'a K, &'a V)> + 'a {
        unsafe {
            (0..self.map._shard_count())
                .map(move |shard_i| self.map._get_read_shard(shard_i))
                .flat_map(|shard| shard.iter())
                .map(|b| {
                    let (k, v) = b.as_ref();
                    (k, v.get())
                })
        }
    }

    /// An iterator visiting all keys in arbitrary order. The iterator element type is `&'a K`.
    pub fn keys(&'a self) -> impl Iterator<Item = &'a K> + 'a {
        self.iter().map(|(k, _v)| k)
    }

    /// An iterator visiting all values in arbitrary order. The iterator element type is `&'a V`.
    pub fn values(&'a self) -> impl Iterator<Item = &'a V> + 'a {
        self.iter().map(|(_k, v)| v)
    }

    cfg_if! {
        if #[cfg(feature = "raw-api")] {
            /// Allows you to peek at the inner shards that store your data.
            /// You should probably not use this unless you know what you are doing.
            ///
            /// Requires the `raw-api` feature to be enabled.
            ///
            /// # Examples
            ///
            /// ```
            /// use dashmap::DashMap;
            ///
            /// let map = DashMap::<(), ()>::new().into_read_only();
            /// println!("Amount of shards: {}", map.shards().len());
            /// ```
            pub fn shards(&self) -> &[CachePadded<RwLock<HashMap<K, V>>>] {
                &self.map.shards
            }
        } else {
            #[allow(dead_code)]
            pub(crate) fn shards(&self) -> &[CachePadded<RwLock<HashMap<K, V>>>] {
                &self.map.shards
            }
        }
    }
}

#[cfg(test)]

mod tests {

    use crate::DashMap;

    fn construct_sample_map() -> DashMap<i32, String> {
        let map = DashMap::new();

        map.insert(1, "one".to_string());

        map.insert(10, "ten".to_string());

        map.insert(27, "twenty seven".to_string());

        map.insert(45, "forty five".to_string());

        map
    }

    #[test]

    fn test_properties() {
        let map = construct_sample_map();

        let view = map.clone().into_read_only();

        assert_eq!(view.is_empty(), map.is_empty());

        assert_eq!(view.len(), map.len());

        assert_eq!(view.capacity(), map.capacity());

        let new_map = view.into_inner();

        assert_eq!(new_map.is_empty(), map.is_empty());

        assert_eq!(new_map.len(), map.len());

        assert_eq!(new_map.capacity(), map.capacity());
    }

    #[test]

    fn test_get() {
        let map = construct_sample_map();

        let view = map.clone().into_read_only();

        for key in map.iter().map(|entry| *entry.key()) {
            assert!(view.contains_key(&key));

            let map_entry = map.get(&key).unwrap();

            assert_eq!(view.get(&key).unwrap(), map_entry.value());

            let key_value: (&i32, &String) = view.get_key_value(&key).unwrap();

            assert_eq!(key_value.0, map_entry.key());

            assert_eq!(key_value.1, map_entry.value());
        }
    }

    #[test]

    fn test_iters() {
        let map = construct_sample_map();

        let view = map.clone().into_read_only();

        let mut visited_items = Vec::new();

        for (key, value) in view.iter() {
            map.contains_key(key);

            let map_entry = map.get(key).unwrap();

            assert_eq!(key, map_entry.key());

            assert_eq!(value, map_entry.value());

            visited_items.push((key, value));
        }

        let mut visited_keys = Vec::new();

        for key in view.keys() {
            map.contains_key(key);

            let map_entry = map.get(key).unwrap();

            assert_eq!(key, map_entry.key());

            assert_eq!(view.get(key).unwrap(), map_entry.value());

            visited_keys.push(key);
        }

        let mut visited_values = Vec::new();

        for value in view.values() {
            visited_values.push(value);
        }

        for entry in map.iter() {
            let key = entry.key();

            let value = entry.value();

            assert!(visited_keys.contains(&key));

            assert!(visited_values.contains(&value));

            assert!(visited_items.contains(&(key, value)));
        }
    }
}

use crate::mapref::multiple::RefMulti;
use crate::rayon::map::Iter;
use crate::ReadOnlyView;
use core::hash::{BuildHasher, Hash};
use rayon::iter::IntoParallelIterator;

impl<K, V, S> IntoParallelIterator for ReadOnlyView<K, V, S>
where
    K: Send + Eq + Hash,
    V: Send,
    S: Send + Clone + BuildHasher,
{
    type Iter = super::map::OwningIter<K, V>;
    type Item = (K, V);

    fn into_par_iter(self) -> Self::Iter {
        super::map::OwningIter {
            shards: self.map.shards,
        }
    }
}

// This impl also enables `IntoParallelRefIterator::par_iter`
impl<'a, K, V, S> IntoParallelIterator for &'a ReadOnlyView<K, V, S>
where
    K: Send + Sync + Eq + Hash,
    V: Send + Sync,
    S: Send + Sync + Clone + BuildHasher,
{
    type Iter = Iter<'a, K, V>;
    type Item = RefMulti<'a, K, V>;

    fn into_par_iter(self) -> Self::Iter {
        Iter {
            shards: &self.map.shards,
        }
    }
}

#[cfg(test)]
mod tests {
    use crate::DashMap;
    use rayon::iter::{IntoParallelIterator, IntoParallelRefIterator, ParallelIterator};

    fn construct_sample_map() -> DashMap<i32, String> {
        let map = DashMap::new();

        map.insert(1, "one".to_string());

        map.insert(10, "ten".to_string());

        map.insert(27, "twenty seven".to_string());

        map.insert(45, "forty five".to_string());

        map
    }

    #[test]
    fn test_par_iter() {
        let map = construct_sample_map();

        let view = map.clone().into_read_only();

        view.par_iter().for_each(|entry| {
            let key = *entry.key();

            assert!(view.contains_key(&key));

            let map_entry = map.get(&key).unwrap();

            assert_eq!(view.get(&key).unwrap(), map_entry.value());

            let key_value: (&i32, &String) = view.get_key_value(&key).unwrap();

            assert_eq!(key_value.0, map_entry.key());

            assert_eq!(key_value.1, map_entry.value());
        });
    }

    #[test]
    fn test_into_par_iter() {
        let map = construct_sample_map();

        let view = map.clone().into_read_only();

        view.into_par_iter().for_each(|(key, value)| {
            let map_entry = map.get(&key).unwrap();

            assert_eq!(&key, map_entry.key());

            assert_eq!(&value, map_entry.value());
        });
    }
}

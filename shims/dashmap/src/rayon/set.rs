use crate::setref::multiple::RefMulti;
use crate::DashSet;
use core::hash::{BuildHasher, Hash};
use rayon::iter::plumbing::UnindexedConsumer;
use rayon::iter::{FromParallelIterator, IntoParallelIterator, ParallelExtend, ParallelIterator};

impl<K, S> ParallelExtend<K> for DashSet<K, S>
where
    K: Send + Sync + Eq + Hash,
    S: Send + Sync + Clone + BuildHasher,
{
    fn par_extend<I>(&mut self, par_iter: I)
    where
        I: IntoParallelIterator<Item = K>,
    {
        (&*self).par_extend(par_iter);
    }
}

// Since we don't actually need mutability, we can implement this on a
// reference, similar to `io::Write for &File`.
impl<K, S> ParallelExtend<K> for &'_ DashSet<K, S>
where
    K: Send + Sync + Eq + Hash,
    S: Send + Sync + Clone + BuildHasher,
{
    fn par_extend<I>(&mut self, par_iter: I)
    where
        I: IntoParallelIterator<Item = K>,
    {
        let &mut set = self;
        par_iter.into_par_iter().for_each(move |key| {
            set.insert(key);
        });
    }
}

impl<K, S> FromParallelIterator<K> for DashSet<K, S>
where
    K: Send + Sync + Eq + Hash,
    S: Send + Sync + Clone + Default + BuildHasher,
{
    fn from_par_iter<I>(par_iter: I) -> Self
    where
        I: IntoParallelIterator<Item = K>,
    {
        let set = Self::default();
        (&set).par_extend(par_iter);
        set
    }
}

impl<K, S> IntoParallelIterator for DashSet<K, S>
where
    K: Send + Eq + Hash,
    S: Send + Clone + BuildHasher,
{
    type Iter = OwningIter<K>;
    type Item = K;

    fn into_par_iter(self) -> Self::Iter {
        OwningIter {
            inner: self.inner.into_par_iter(),
        }
    }
}

pub struct OwningIter<K> {
    inner: super::map::OwningIter<K, ()>,
}

impl<K> ParallelIterator for OwningIter<K>
where
    K: Send + Eq + Hash,
{
    type Item = K;

    fn drive_unindexed<C>(self, consumer: C) -> C::Result
    where
        C: UnindexedConsumer<Self::Item>,
    {
        self.inner.map(|(k, _)| k).drive_unindexed(consumer)
    }
}

// This impl also enables `IntoParallelRefIterator::par_iter`
impl<'a, K, S> IntoParallelIterator for &'a DashSet<K, S>
where
    K: Send + Sync + Eq + Hash,
    S: Send + Sync + Clone + BuildHasher,
{
    type Iter = Iter<'a, K>;
    type Item = RefMulti<'a, K>;

    fn into_par_iter(self) -> Self::Iter {
        Iter {
            inner: (&self.inner).into_par_iter(),
        }
    }
}

pub struct Iter<'a, K> {
    inner: super::map::Iter<'a, K, ()>,
}

impl<'a, K> ParallelIterator for Iter<'a, K>
where
    K: Send + Sync + Eq + Hash,
{
    type Item = RefMulti<'a, K>;

    fn drive_unindexed<C>(self, consumer: C) -> C::Result
    where
        C: UnindexedConsumer<Self::Item>,
    {
        self.inner.map(RefMulti::new).drive_unindexed(consumer)
    }
}

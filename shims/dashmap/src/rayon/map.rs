use crate::lock::RwLock;
use crate::mapref::multiple::{RefMulti, RefMutMulti};
use crate::{DashMap, HashMap};
use core::hash::{BuildHasher, Hash};
use crossbeam_utils::CachePadded;
use rayon::iter::plumbing::UnindexedConsumer;
use rayon::iter::{FromParallelIterator, IntoParallelIterator, ParallelExtend, ParallelIterator};
use std::sync::Arc;

impl<K, V, S> ParallelExtend<(K, V)> for DashMap<K, V, S>
where
    K: Send + Sync + Eq + Hash,
    V: Send + Sync,
    S: Send + Sync + Clone + BuildHasher,
{
    fn par_extend<I>(&mut self, par_iter: I)
    where
        I: IntoParallelIterator<Item = (K, V)>,
    {
        (&*self).par_extend(par_iter);
    }
}

// Since we don't actually need mutability, we can implement this on a
// reference, similar to `io::Write for &File`.
impl<K, V, S> ParallelExtend<(K, V)> for &'_ DashMap<K, V, S>
where
    K: Send + Sync + Eq + Hash,
    V: Send + Sync,
    S: Send + Sync + Clone + BuildHasher,
{
    fn par_extend<I>(&mut self, par_iter: I)
    where
        I: IntoParallelIterator<Item = (K, V)>,
    {
        let &mut map = self;
        par_iter.into_par_iter().for_each(move |(key, value)| {
            map.insert(key, value);
        });
    }
}

impl<K, V, S> FromParallelIterator<(K, V)> for DashMap<K, V, S>
where
    K: Send + Sync + Eq + Hash,
    V: Send + Sync,
    S: Send + Sync + Clone + Default + BuildHasher,
{
    fn from_par_iter<I>(par_iter: I) -> Self
    where
        I: IntoParallelIterator<Item = (K, V)>,
    {
        let map = Self::default();
        (&map).par_extend(par_iter);
        map
    }
}

// Implementation note: while the shards will iterate in parallel, we flatten
// sequentially within each shard (`flat_map_iter`), because the standard
// `HashMap` only implements `ParallelIterator` by collecting to a `Vec` first.
// There is real parallel support in the `hashbrown/rayon` feature, but we don't
// always use that map.

impl<K, V, S> IntoParallelIterator for DashMap<K, V, S>
where
    K: Send + Eq + Hash,
    V: Send,
    S: Send + Clone + BuildHasher,
{
    type Iter = OwningIter<K, V>;
    type Item = (K, V);

    fn into_par_iter(self) -> Self::Iter {
        OwningIter {
            shards: self.shards,
        }
    }
}

pub struct OwningIter<K, V> {
    pub(super) shards: Box<[CachePadded<RwLock<HashMap<K, V>>>]>,
}

impl<K, V> ParallelIterator for OwningIter<K, V>
where
    K: Send + Eq + Hash,
    V: Send,
{
    type Item = (K, V);

    fn drive_unindexed<C>(self, consumer: C) -> C::Result
    where
        C: UnindexedConsumer<Self::Item>,
    {
        Vec::from(self.shards)
            .into_par_iter()
            .flat_map_iter(|shard| {
                shard
                    .into_inner()
                    .into_inner()
                    .into_iter()
                    .map(|(k, v)| (k, v.into_inner()))
            })
            .drive_unindexed(consumer)
    }
}

// This impl also enables `IntoParallelRefIterator::par_iter`
impl<'a, K, V, S> IntoParallelIterator for &'a DashMap<K, V, S>
where
    K: Send + Sync + Eq + Hash,
    V: Send + Sync,
    S: Send + Sync + Clone + BuildHasher,
{
    type Iter = Iter<'a, K, V>;
    type Item = RefMulti<'a, K, V>;

    fn into_par_iter(self) -> Self::Iter {
        Iter {
            shards: &self.shards,
        }
    }
}

pub struct Iter<'a, K, V> {
    pub(super) shards: &'a [CachePadded<RwLock<HashMap<K, V>>>],
}

impl<'a, K, V> ParallelIterator for Iter<'a, K, V>
where
    K: Send + Sync + Eq + Hash,
    V: Send + Sync,
{
    type Item = RefMulti<'a, K, V>;

    fn drive_unindexed<C>(self, consumer: C) -> C::Result
    where
        C: UnindexedConsumer<Self::Item>,
    {
        self.shards
            .into_par_iter()
            .flat_map_iter(|shard| unsafe {
                let guard = Arc::new(shard.read());
                guard.iter().map(move |b| {
                    let guard = Arc::clone(&guard);
                    let (k, v) = b.as_ref();
                    RefMulti::new(guard, k, v.get())
                })
            })
            .drive_unindexed(consumer)
    }
}

// This impl also enables `IntoParallelRefMutIterator::par_iter_mut`
impl<'a, K, V> IntoParallelIterator for &'a mut DashMap<K, V>
where
    K: Send + Sync + Eq + Hash,
    V: Send + Sync,
{
    type Iter = IterMut<'a, K, V>;
    type Item = RefMutMulti<'a, K, V>;

    fn into_par_iter(self) -> Self::Iter {
        IterMut {
            shards: &self.shards,
        }
    }
}

impl<K, V, S> DashMap<K, V, S>
where
    K: Send + Sync + Eq + Hash,
    V: Send + Sync,
{
    // Unlike `IntoParallelRefMutIterator::par_iter_mut`, we only _need_ `&self`.
    pub fn par_iter_mut(&self) -> IterMut<'_, K, V> {
        IterMut {
            shards: &self.shards,
        }
    }
}

pub struct IterMut<'a, K, V> {
    shards: &'a [CachePadded<RwLock<HashMap<K, V>>>],
}

impl<'a, K, V> ParallelIterator for IterMut<'a, K, V>
where
    K: Send + Sync + Eq + Hash,
    V: Send + Sync,
{
    type Item = RefMutMulti<'a, K, V>;

    fn drive_unindexed<C>(self, consumer: C) -> C::Result
    where
        C: UnindexedConsumer<Self::Item>,
    {
        self.shards
            .into_par_iter()
            .flat_map_iter(|shard| unsafe {
                let guard = Arc::new(shard.write());
                guard.iter().map(move |b| {
                    let guard = Arc::clone(&guard);
                    let (k, v) = b.as_mut();
                    RefMutMulti::new(guard, k, v.get_mut())
                })
            })
            .drive_unindexed(consumer)
    }
}

//! This module is full of hackery and dark magic.
//! Either spend a day fixing it and quietly submit a PR or don't mention it to anybody.
use core::cell::UnsafeCell;
use core::{mem, ptr};

pub const fn ptr_size_bits() -> usize {
    mem::size_of::<usize>() * 8
}

pub fn map_in_place_2<T, U, F: FnOnce(U, T) -> T>((k, v): (U, &mut T), f: F) {
    unsafe {
        // # Safety
        //
        // If the closure panics, we must abort otherwise we could double drop `T`
        let promote_panic_to_abort = AbortOnPanic;

        ptr::write(v, f(k, ptr::read(v)));

        // If we made it here, the calling thread could have already have panicked, in which case
        // We know that the closure did not panic, so don't bother checking.
        std::mem::forget(promote_panic_to_abort);
    }
}

/// A simple wrapper around `T`
///
/// This is to prevent UB when using `HashMap::get_key_value`, because
/// `HashMap` doesn't expose an api to get the key and value, where
/// the value is a `&mut T`.
///
/// See [#10](https://github.com/xacrimon/dashmap/issues/10) for details
///
/// This type is meant to be an implementation detail, but must be exposed due to the `Dashmap::shards`
#[repr(transparent)]
pub struct SharedValue<T> {
    value: UnsafeCell<T>,
}

impl<T: Clone> Clone for SharedValue<T> {
    fn clone(&self) -> Self {
        let inner = self.get().clone();

        Self {
            value: UnsafeCell::new(inner),
        }
    }
}

unsafe impl<T: Send> Send for SharedValue<T> {}

unsafe impl<T: Sync> Sync for SharedValue<T> {}

impl<T> SharedValue<T> {
    /// Create a new `SharedValue<T>`
    pub const fn new(value: T) -> Self {
        Self {
            value: UnsafeCell::new(value),
        }
    }

    /// Get a shared reference to `T`
    pub fn get(&self) -> &T {
        unsafe { &*self.value.get() }
    }

    /// Get an unique reference to `T`
    pub fn get_mut(&mut self) -> &mut T {
        unsafe { &mut *self.value.get() }
    }

    /// Unwraps the value
    pub fn into_inner(self) -> T {
        self.value.into_inner()
    }

    /// Get a mutable raw pointer to the underlying value
    pub(crate) fn as_ptr(&self) -> *mut T {
        self.value.get()
    }
}

struct AbortOnPanic;

impl Drop for AbortOnPanic {
    fn drop(&mut self) {
        if std::thread::panicking() {
            std::process::abort()
        }
    }
}

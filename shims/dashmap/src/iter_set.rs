use crate::setref::multiple::RefMulti;
use crate::t::Map;
use core::hash::{BuildHasher, Hash};

pub struct OwningIter<K, S> {
    inner: crate::iter::OwningIter<K, (), S>,
}

impl<K: Eq + Hash, S: BuildHasher + Clone> OwningIter<K, S> {
    pub(crate) fn new(inner: crate::iter::OwningIter<K, (), S>) -> Self {
        Self { inner }
    }
}

impl<K: Eq + Hash, S: BuildHasher + Clone> Iterator for OwningIter<K, S> {
    type Item = K;

    fn next(&mut self) -> Option<Self::Item> {
        self.inner.next().map(|(k, _)| k)
    }
}

unsafe impl<K, S> Send for OwningIter<K, S>
where
    K: Eq + Hash + Send,
    S: BuildHasher + Clone + Send,
{
}

unsafe impl<K, S> Sync for OwningIter<K, S>
where
    K: Eq + Hash + Sync,
    S: BuildHasher + Clone + Sync,
{
}

pub struct Iter<'a, K, S, M> {
    inner: crate::iter::Iter<'a, K, (), S, M>,
}

unsafe impl<'a, 'i, K, S, M> Send for Iter<'i, K, S, M>
where
    K: 'a + Eq + Hash + Send,
    S: 'a + BuildHasher + Clone,
    M: Map<'a, K, (), S>,
{
}

unsafe impl<'a, 'i, K, S, M> Sync for Iter<'i, K, S, M>
where
    K: 'a + Eq + Hash + Sync,
    S: 'a + BuildHasher + Clone,
    M: Map<'a, K, (), S>,
{
}

impl<'a, K: Eq + Hash, S: 'a + BuildHasher + Clone, M: Map<'a, K, (), S>> Iter<'a, K, S, M> {
    pub(crate) fn new(inner: crate::iter::Iter<'a, K, (), S, M>) -> Self {
        Self { inner }
    }
}

impl<'a, K: Eq + Hash, S: 'a + BuildHasher + Clone, M: Map<'a, K, (), S>> Iterator
    for Iter<'a, K, S, M>
{
    type Item = RefMulti<'a, K>;

    fn next(&mut self) -> Option<Self::Item> {
        self.inner.next().map(RefMulti::new)
    }
}

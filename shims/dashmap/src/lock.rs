//! VERIF SHIM — replaces dashmap 6.1.0's parking_lot_core based shard lock (see
//! ../dashmap-lock.rs.orig) by a reader/writer lock built on shuttle's scheduled Mutex+Condvar,
//! so that every shard lock operation is a scheduling point decided by the simulator.
//!
//! Same acquisition policy as the original `RawRwLock`:
//!  * a reader is admitted unless a writer *holds* the lock (a parked writer does not block
//!    new readers: `try_lock_shared_fast` only tests the ONE_WRITER bits);
//!  * a writer is admitted when there is no reader and no writer;
//!  * not re-entrant; `downgrade` is atomic (writer -> one reader, readers woken).

use shuttle::sync::{Condvar, Mutex};
use std::cell::UnsafeCell;
use std::marker::PhantomData;
use std::ops::{Deref, DerefMut};

/// Kept only because `dashmap::RawRwLock` is a public name of the crate.
pub struct RawRwLock;

#[derive(Default)]
struct State {
    readers: usize,
    writer: bool,
}

pub struct RwLock<T> {
    state: Mutex<State>,
    cv: Condvar,
    data: UnsafeCell<T>,
}

unsafe impl<T: Send> Send for RwLock<T> {}
unsafe impl<T: Send + Sync> Sync for RwLock<T> {}

pub struct RwLockReadGuard<'a, T> {
    lock: &'a RwLock<T>,
    _not_send: PhantomData<*const ()>,
}

pub struct RwLockWriteGuard<'a, T> {
    lock: &'a RwLock<T>,
    _not_send: PhantomData<*const ()>,
}

unsafe impl<T: Sync> Sync for RwLockReadGuard<'_, T> {}
unsafe impl<T: Sync> Sync for RwLockWriteGuard<'_, T> {}

impl<T> RwLock<T> {
    pub fn new(value: T) -> Self {
        RwLock {
            state: Mutex::new(State::default()),
            cv: Condvar::new(),
            data: UnsafeCell::new(value),
        }
    }

    pub fn into_inner(self) -> T {
        self.data.into_inner()
    }

    pub fn get_mut(&mut self) -> &mut T {
        self.data.get_mut()
    }

    pub fn data_ptr(&self) -> *mut T {
        self.data.get()
    }

    pub fn read(&self) -> RwLockReadGuard<'_, T> {
        let mut s = self.state.lock().unwrap();
        while s.writer {
            s = self.cv.wait(s).unwrap();
        }
        s.readers += 1;
        RwLockReadGuard { lock: self, _not_send: PhantomData }
    }

    pub fn try_read(&self) -> Option<RwLockReadGuard<'_, T>> {
        let mut s = self.state.lock().unwrap();
        if s.writer {
            return None;
        }
        s.readers += 1;
        Some(RwLockReadGuard { lock: self, _not_send: PhantomData })
    }

    pub fn write(&self) -> RwLockWriteGuard<'_, T> {
        let mut s = self.state.lock().unwrap();
        while s.writer || s.readers > 0 {
            s = self.cv.wait(s).unwrap();
        }
        s.writer = true;
        RwLockWriteGuard { lock: self, _not_send: PhantomData }
    }

    pub fn try_write(&self) -> Option<RwLockWriteGuard<'_, T>> {
        let mut s = self.state.lock().unwrap();
        if s.writer || s.readers > 0 {
            return None;
        }
        s.writer = true;
        Some(RwLockWriteGuard { lock: self, _not_send: PhantomData })
    }
}

impl<T: Default> Default for RwLock<T> {
    fn default() -> Self {
        RwLock::new(T::default())
    }
}

impl<T> Deref for RwLockReadGuard<'_, T> {
    type Target = T;
    fn deref(&self) -> &T {
        unsafe { &*self.lock.data.get() }
    }
}

impl<T> Deref for RwLockWriteGuard<'_, T> {
    type Target = T;
    fn deref(&self) -> &T {
        unsafe { &*self.lock.data.get() }
    }
}

impl<T> DerefMut for RwLockWriteGuard<'_, T> {
    fn deref_mut(&mut self) -> &mut T {
        unsafe { &mut *self.lock.data.get() }
    }
}

impl<T> Drop for RwLockReadGuard<'_, T> {
    fn drop(&mut self) {
        let mut s = self.lock.state.lock().unwrap();
        s.readers -= 1;
        drop(s);
        self.lock.cv.notify_all();
    }
}

impl<T> Drop for RwLockWriteGuard<'_, T> {
    fn drop(&mut self) {
        let mut s = self.lock.state.lock().unwrap();
        s.writer = false;
        drop(s);
        self.lock.cv.notify_all();
    }
}

impl<'a, T> RwLockWriteGuard<'a, T> {
    /// Atomically turns the write lock into a read lock.
    pub fn downgrade(this: Self) -> RwLockReadGuard<'a, T> {
        let lock = this.lock;
        std::mem::forget(this);
        let mut s = lock.state.lock().unwrap();
        s.writer = false;
        s.readers += 1;
        drop(s);
        lock.cv.notify_all();
        RwLockReadGuard { lock, _not_send: PhantomData }
    }
}

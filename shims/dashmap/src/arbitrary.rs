use arbitrary::{Arbitrary, Unstructured};
use core::hash::BuildHasher;

impl<'a, K, V, S> Arbitrary<'a> for crate::DashMap<K, V, S>
where
    K: Eq + std::hash::Hash + Arbitrary<'a>,
    V: Arbitrary<'a>,
    S: Default + BuildHasher + Clone,
{
    fn arbitrary(u: &mut Unstructured<'a>) -> arbitrary::Result<Self> {
        u.arbitrary_iter()?.collect()
    }
}

//! haysim — deterministic simulation harness for libhaystack (C03, C09, C11, C17, C18).
//! The Python driver (/verif/verif) builds this binary against the working tree under test,
//! shards work units over worker processes, watches them, minimises and reports.

mod alloc_count;
mod c03;
mod c09;
mod c11;
mod c17;
mod capi;
mod cli;
mod corpus;
mod engine;
mod gen_filter;
mod gen_json;
mod gen_zinc;
mod harness;
mod mutate;
mod rng;
mod simio;

use engine::{Ctx, Engine};
use harness::*;

fn engine_for(prop: &str, ctx: Ctx) -> Box<dyn Engine> {
    match prop {
        "C03" => Box::new(c03::C03 { ctx }),
        "C09" => Box::new(c09::C09 { ctx }),
        "C11" => Box::new(c11::C11 { ctx }),
        "C17" => Box::new(c17::CApi { ctx, mode: capi::Mode::Model }),
        "C18" => Box::new(c17::CApi { ctx, mode: capi::Mode::Memory }),
        other => {
            eprintln!("haysim: unknown property {other}");
            std::process::exit(2);
        }
    }
}

/// Engine-independent dispatch for explicit cases (replay, minimisation).
fn run_explicit(case: &Case, ctx: &Ctx) -> Outcome {
    match case.prop.as_str() {
        "C03" => c03::run_case(case),
        "C09" => c09::run_case(case, c09::load_namespace(ctx)),
        "C11" => c11::run_case(case),
        "C17" => c17::run_case(case, capi::Mode::Model),
        "C18" => c17::run_case(case, capi::Mode::Memory),
        other => {
            eprintln!("haysim: unknown property {other}");
            std::process::exit(2);
        }
    }
}


/// what a re-entering simulated reader does before it answers: one small decode of each kind on
/// the calling thread (results ignored; a panic here is the decoder's)
fn reenter_decodes() {
    let _ = libhaystack::encoding::zinc::decode::from_str("{a:1 b:\"x\" c:@r \"d\" d:[2021-01-01,N]}");
    let _ = serde_json::from_str::<libhaystack::val::Value>("{\"a\":{\"_kind\":\"ref\",\"val\":\"r\"},\"b\":[1,\"x\"]}");
    let _ = libhaystack::filter::Filter::try_from("site and x == 1kW and a->b");
}

fn main() {
    // process-wide lazily built tables (units, zones, the default namespace) are built now, on the
    // main thread: building them inside a case would advance the per-thread hash-seed counter of
    // that case's thread only in the first case of a process that needs them. The small-stack
    // probes, which want them built on their own stack, run in processes that skip this.
    if std::env::args().nth(1).as_deref() != Some("run-case") || std::env::var("VERIF_COLD").is_err() {
        reenter_decodes();
    }
    let _ = simio::REENTER.set(reenter_decodes);
    cli::main_with(engine_for, run_explicit);
}

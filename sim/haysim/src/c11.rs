//! C11 — re-encoding decoded text is stable; stream decoding equals buffer decoding; the lazy
//! iterator hands out each row having consumed no further than the first token after it.
//!
//! Scenarios (one case = one accepted text through one of them):
//!   chunked-read   Parser over SimReader(chunking, EINTR) vs from_str on the contiguous text
//!   lazy-rows      RowIterator over SimReader: same rows in order, consumption bound per yield,
//!                  availability of row k from the prefix that ends with the first token after it
//!   pipe-zinc      decode -> real encoder into SimWriter (short writes, EINTR) -> SimReader ->
//!                  decode -> encode: same value, byte-identical second encoding
//!   pipe-json      the same through serde_json::to_writer / from_reader

use crate::c03::{zinc_rows_over, zinc_value_over};
use crate::corpus;
use crate::engine::{Ctx, Engine, Tier, UnitSpec};
use crate::gen_json::{self, JsonCfg};
use crate::gen_zinc::{self, GenCfg};
use crate::harness::*;
use crate::mutate;
use crate::rng::{fnv1a, mix, Rng};
use crate::simio::*;
use libhaystack::encoding::zinc::decode::from_str as zinc_from_str;
use libhaystack::encoding::zinc::encode::{to_zinc_string, ToZinc};
use libhaystack::val::*;
use std::io::Cursor;

pub struct C11 {
    pub ctx: Ctx,
}

/// The scanner's own look-ahead (`cur` + one stashed peek) that a yield may be ahead of the end of
/// the first token after the row. 2 is the largest value the unchanged tree ever shows (reported
/// on every run as `max:lazy-rows bytes consumed beyond …`); the first version of this check
/// allowed 8, which let a decoder that reads 3 bytes too far pass (seeded C11-6).
pub const LOOKAHEAD: usize = 2;

thread_local! {
    /// largest number of bytes any yield was ahead of the end of the first token after its row
    static OVERSHOOT: std::cell::Cell<usize> = const { std::cell::Cell::new(0) };
}

/// Row marks of a top-level grid computed by a tokenizer that shares no code with the library:
/// (offset just after the column line, [offset just after each row's line terminator]).
/// Row boundary = line terminator outside strings/uris and outside nested `<< >>` grids.
pub fn scan_rows(text: &[u8]) -> Option<(usize, Vec<usize>)> {
    let mut i = 0;
    let n = text.len();
    let mut line_ends: Vec<usize> = Vec::new();
    let mut depth = 0usize;
    let mut line_has_content = false;
    let mut content_flags: Vec<bool> = Vec::new();
    while i < n {
        let b = text[i];
        match b {
            b'"' | b'`' => {
                line_has_content = true;
                let q = b;
                i += 1;
                while i < n && text[i] != q {
                    if text[i] == b'\\' {
                        i += 1;
                    }
                    i += 1;
                }
                i += 1;
            }
            b'<' if i + 1 < n && text[i + 1] == b'<' => {
                line_has_content = true;
                depth += 1;
                i += 2;
            }
            b'>' if i + 1 < n && text[i + 1] == b'>' => {
                line_has_content = true;
                depth = depth.saturating_sub(1);
                i += 2;
            }
            b'\r' | b'\n' => {
                i += 1;
                if b == b'\r' && i < n && text[i] == b'\n' {
                    i += 1;
                }
                if depth == 0 {
                    line_ends.push(i);
                    content_flags.push(line_has_content);
                    line_has_content = false;
                }
            }
            b' ' | b'\t' => i += 1,
            _ => {
                line_has_content = true;
                i += 1;
            }
        }
    }
    if line_ends.len() < 2 {
        return None;
    }
    // line 0 = ver + meta, line 1 = columns; blank lines are not rows
    let header_end = line_ends[1];
    let rows: Vec<usize> = line_ends.iter().zip(content_flags.iter()).skip(2).filter(|(_, c)| **c).map(|(e, _)| *e).collect();
    Some((header_end, rows))
}

/// End of the first token at or after `off`, by the same independent tokenizer (scalar tokens
/// end at a separator; strings/uris at their closing quote; a ref may carry a quoted dis).
pub fn first_token_end_after(text: &[u8], off: usize) -> usize {
    let n = text.len();
    let mut i = off;
    while i < n && (text[i] == b' ' || text[i] == b'\t' || text[i] == b'\r' || text[i] == b'\n') {
        i += 1;
    }
    if i >= n {
        return n;
    }
    let quoted = |mut j: usize| -> usize {
        let q = text[j];
        j += 1;
        while j < n && text[j] != q {
            if text[j] == b'\\' {
                j += 1;
            }
            j += 1;
        }
        (j + 1).min(n)
    };
    match text[i] {
        b'"' | b'`' => quoted(i),
        b',' | b'[' | b']' | b'{' | b'}' | b'<' | b'>' | b':' => i + 1,
        _ => {
            let mut j = i;
            let mut paren = 0i32;
            while j < n {
                let c = text[j];
                if c == b'"' {
                    // XStr / Coord bodies and a ref's dis belong to the token
                    j = quoted(j);
                    continue;
                }
                if c == b'(' {
                    paren += 1;
                } else if c == b')' {
                    paren -= 1;
                    if paren <= 0 {
                        j += 1;
                        break;
                    }
                } else if paren <= 0 && (c == b',' || c == b'\n' || c == b'\r' || c == b']' || c == b'}' || c == b'>' ) {
                    break;
                } else if paren <= 0 && c == b' ' {
                    // "@id "dis"" and "...Z Zone" / "+01:00 Zone" continue after one space
                    let next = text.get(j + 1).copied().unwrap_or(0);
                    let is_ref = text[i] == b'@' && next == b'"';
                    let is_zone = next.is_ascii_uppercase() && text[i].is_ascii_digit() && text[i..j].contains(&b'T');
                    if !(is_ref || is_zone) {
                        break;
                    }
                }
                j += 1;
            }
            j
        }
    }
}

fn zinc_encode_with(v: &Value, plan: &WritePlan) -> Result<(Vec<u8>, std::rc::Rc<ChanStats>), String> {
    let mut w = SimWriter::new(plan);
    let stats = w.stats.clone();
    v.to_zinc(&mut w).map_err(|e| e.to_string())?;
    Ok((w.out, stats))
}

fn soft_only(plan: &ReadPlan) -> ReadPlan {
    // C11 quantifies over chunking and Interrupted only
    ReadPlan { err: None, truncate: None, ..plan.clone() }
}

pub fn run_case(case: &Case) -> Outcome {
    let doc = case.doc_bytes();
    let len = doc.len();
    let mut out = Outcome::default();
    let plan = soft_only(&case.read);
    let wplan = WritePlan { err: None, zero_at: None, ..case.write.clone() };
    let scenario = case.scenario.clone();
    let fuel = 64 * len as u64 * 4 + 65536;
    let (caught, ticks) = guarded(fuel, || -> Result<(String, bool), (String, String)> {
        // Err((signature, detail)) = violation; Ok((rendered, accepted))
        match scenario.as_str() {
            "chunked-read" => {
                let text = match std::str::from_utf8(&doc) {
                    Ok(t) => t,
                    Err(_) => return Ok(("not-utf8".into(), false)),
                };
                let reference = zinc_from_str(text);
                let mut r = SimReader::new(&doc, &plan).with_budget(4 * len as u64 + 1024, u64::MAX);
                let streamed = zinc_value_over(&mut r);
                match (&reference, &streamed) {
                    (Ok(a), Ok(b)) => {
                        let (ca, cb) = (canon(a), canon(b));
                        if ca != cb || a_ver(a) != a_ver(b) {
                            return Err(("C11 chunked-read value differs from buffer decode".into(), canon_diff(&ca, &cb)));
                        }
                        Ok((ca, true))
                    }
                    (Err(_), Err(_)) => Ok(("rejected".into(), false)),
                    (Ok(_), Err(e)) => Err(("C11 chunked-read rejects text the buffer decode accepts".into(), format!("stream error: {e}"))),
                    (Err(e), Ok(_)) => Err(("C11 chunked-read accepts text the buffer decode rejects".into(), format!("buffer error: {e}"))),
                }
            }
            "lazy-rows" => lazy_rows(case, &doc, &plan),
            "pipe-zinc" => {
                let text = match std::str::from_utf8(&doc) {
                    Ok(t) => t,
                    Err(_) => return Ok(("not-utf8".into(), false)),
                };
                let v0 = match zinc_from_str(text) {
                    Ok(v) => v,
                    Err(_) => return Ok(("rejected".into(), false)),
                };
                let c0 = canon(&v0);
                let t1_ref = to_zinc_string(&v0).map_err(|e| ("C11 pipe-zinc encoder error on a decoded value".to_string(), e.to_string()))?;
                let (t1, _) = zinc_encode_with(&v0, &wplan).map_err(|e| ("C11 pipe-zinc encoder error under short writes / EINTR".to_string(), e))?;
                if t1 != t1_ref.as_bytes() {
                    return Err(("C11 pipe-zinc bytes written under short writes / EINTR differ from the contiguous encoding".into(), format!("{} vs {} bytes", t1.len(), t1_ref.len())));
                }
                let mut r = SimReader::new(&t1, &plan).with_budget(4 * t1.len() as u64 + 1024, u64::MAX);
                let v1 = match zinc_value_over(&mut r) {
                    Ok(v) => v,
                    Err(e) => {
                        if has_year_beyond_four_digits(&v0) {
                            return Err(("C11 pipe-zinc re-decode rejected [timestamp whose year in its zone is beyond 9999]".into(), format!("first encoding {:?} is rejected: {e}", clip(&t1_ref))));
                        }
                        return Err((
                            format!("C11 pipe-zinc re-decode rejected [{}]", msg_class(&strip_position(&e.to_string()))),
                            format!("first encoding {:?} is rejected: {e}", clip(&t1_ref)),
                        ))
                    }
                };
                let c1 = canon(&v1);
                if c0 != c1 {
                    let c0s = canon(&strip_nonfinite_units(&v0));
                    if c0s == c1 {
                        return Err(("C11 pipe-zinc value changed [non-finite number loses its unit]".into(), format!("{} (first encoding {:?})", canon_diff(&c0, &c1), clip(&t1_ref))));
                    }
                    if canon(&strip_subminute_offset_timestamps(&strip_nonfinite_units(&v0))) == canon(&strip_subminute_offset_timestamps(&v1)) {
                        return Err(("C11 pipe-zinc value changed [timestamp with a sub-minute zone offset moves]".into(), format!("{} (first encoding {:?})", canon_diff(&c0s, &c1), clip(&t1_ref))));
                    }
                    return Err((format!("C11 pipe-zinc value changed [{}]", diff_class(&c0s, &c1)), format!("{} (first encoding {:?})", canon_diff(&c0s, &c1), clip(&t1_ref))));
                }
                let t2 = to_zinc_string(&v1).map_err(|e| ("C11 pipe-zinc second encoding failed".to_string(), e.to_string()))?;
                if t2 != t1_ref {
                    return Err(("C11 pipe-zinc second encoding differs (no fixed point)".into(), format!("{:?} vs {:?}", clip(&t1_ref), clip(&t2))));
                }
                Ok((c0, true))
            }
            "pipe-json" => {
                let v0: Value = match serde_json::from_slice(&doc) {
                    Ok(v) => v,
                    Err(_) => return Ok(("rejected".into(), false)),
                };
                let c0 = canon(&v0);
                let t1_ref = serde_json::to_vec(&v0).map_err(|e| ("C11 pipe-json encoder error on a decoded value".to_string(), e.to_string()))?;
                let mut w = SimWriter::new(&wplan);
                serde_json::to_writer(&mut w, &v0).map_err(|e| ("C11 pipe-json encoder error under short writes / EINTR".to_string(), e.to_string()))?;
                if w.out != t1_ref {
                    return Err(("C11 pipe-json bytes written under short writes / EINTR differ from the contiguous encoding".into(), String::new()));
                }
                let r = SimReader::new(&t1_ref, &plan).with_budget(4 * t1_ref.len() as u64 + 1024, u64::MAX);
                let t1s = String::from_utf8_lossy(&t1_ref).into_owned();
                let v1: Value = match serde_json::from_reader(r) {
                    Ok(v) => v,
                    Err(e) if has_year_beyond_four_digits(&v0) => return Err(("C11 pipe-json re-decode rejected [timestamp whose year in its zone is beyond 9999]".into(), format!("first encoding {:?} is rejected: {e}", clip(&t1s)))),
                    Err(e) => return Err((format!("C11 pipe-json re-decode rejected [{}]", msg_class(&e.to_string())), format!("first encoding {:?} is rejected: {e}", clip(&t1s)))),
                };
                let c1 = canon(&v1);
                if c0 != c1 {
                    if canon(&strip_subminute_offset_timestamps(&v0)) == canon(&strip_subminute_offset_timestamps(&v1)) {
                        return Err(("C11 pipe-json value changed [timestamp with a sub-minute zone offset moves]".into(), format!("{} (first encoding {:?})", canon_diff(&c0, &c1), clip(&t1s))));
                    }
                    return Err((format!("C11 pipe-json value changed [{}]", diff_class(&c0, &c1)), format!("{} (first encoding {:?})", canon_diff(&c0, &c1), clip(&t1s))));
                }
                // the other entry points must agree with the reader
                let v1b: Value = serde_json::from_str(&t1s).map_err(|e| ("C11 pipe-json from_str rejects what from_reader accepts".to_string(), e.to_string()))?;
                if canon(&v1b) != c1 {
                    return Err(("C11 pipe-json from_str and from_reader disagree".into(), String::new()));
                }
                let t2 = serde_json::to_vec(&v1).map_err(|e| ("C11 pipe-json second encoding failed".to_string(), e.to_string()))?;
                if t2 != t1_ref {
                    return Err(("C11 pipe-json second encoding differs (no fixed point)".into(), format!("{:?} vs {:?}", clip(&t1s), clip(&String::from_utf8_lossy(&t2)))));
                }
                Ok((c0, true))
            }
            other => Err((format!("C11 harness unknown scenario {other}"), String::new())),
        }
    });
    out.steps = ticks;
    if scenario == "lazy-rows" {
        out.probes.push(("max:lazy-rows bytes consumed beyond the first token after a yielded row", OVERSHOOT.with(|o| o.replace(0)) as u64));
    }
    let rendered = match caught {
        Caught::Done(Ok((s, accepted))) => {
            out.accepted = accepted;
            s
        }
        Caught::Done(Err((sig, detail))) => {
            out.accepted = true;
            out.violate(sig, detail);
            "violation".into()
        }
        Caught::Panic { msg, loc } => {
            out.violate(format!("C11 panic {} {}", loc_class(&loc), msg_class(&msg)), format!("panicked at {loc}: {msg}"));
            "panic".into()
        }
        Caught::Fuel { site, used } => {
            out.violate(format!("C11 non-termination {} fuel", case.scenario), format!("{used} steps, last site {site}"));
            "fuel".into()
        }
        Caught::ChanBudget { calls } => {
            out.violate(format!("C11 non-termination {} channel", case.scenario), format!("{calls} read calls"));
            "chan".into()
        }
        Caught::Budget { what, n } => {
            out.violate(format!("C11 non-termination {} {what}", case.scenario), format!("{n}"));
            "budget".into()
        }
    };
    out.nontrivial = out.accepted && (plan.is_faulty() || case.write.chunk != Chunk::Full || !case.write.eintr.is_empty());
    out.probe("fault:eintr-plans", plan.eintr.len() as u64);
    out.probe("fault:chunked-read", (plan.chunk != Chunk::Full) as u64);
    out.probe("fault:short-write", (case.write.chunk != Chunk::Full) as u64);
    out.probe("fault:eintr-write-plans", case.write.eintr.len() as u64);
    if out.accepted {
        let d = &doc;
        out.probe("reach:accepted-grid", d.starts_with(b"ver:") as u64);
        out.probe("reach:nested-grid", d.windows(2).any(|w| w == b"<<") as u64);
        out.probe("reach:crlf", d.windows(2).any(|w| w == b"\r\n") as u64);
        out.probe("reach:non-ascii", d.iter().any(|b| *b >= 0x80) as u64);
        out.probe("reach:accepted-mutant", case.extra.contains_key("mutation") as u64);
    }
    out.fingerprint = mix(&[fnv1a(rendered.as_bytes()), ticks]);
    out
}

fn a_ver(v: &Value) -> String {
    match v {
        Value::Grid(g) => g.ver.clone(),
        _ => String::new(),
    }
}

/// Drops the "Input position: .." tail of decoder messages so that the class names the failure.
fn strip_position(msg: &str) -> String {
    match msg.find(" Input position") {
        Some(i) => msg[..i].to_string(),
        None => msg.to_string(),
    }
}

fn clip(s: &str) -> String {
    let mut e = s.len().min(300);
    while !s.is_char_boundary(e) {
        e -= 1;
    }
    s[..e].to_string()
}

/// Innermost canonical constructors around the first difference of two canonical renderings
/// (e.g. "grid>num"): names the construct responsible, so that each genuine defect gets its own
/// signature and a different failure of the same scenario is still reported.
fn diff_class(c0: &str, c1: &str) -> String {
    let i = c0.bytes().zip(c1.bytes()).take_while(|(a, b)| a == b).count();
    let b = c0.as_bytes();
    let mut stack: Vec<String> = Vec::new();
    let mut j = 0;
    let mut word_start: Option<usize> = None;
    while j < i.min(b.len()) {
        let c = b[j];
        if c == b'"' {
            // quoted string payload ({:?} escaping): skip to the closing quote or the diff
            j += 1;
            while j < i.min(b.len()) && b[j] != b'"' {
                if b[j] == b'\\' {
                    j += 1;
                }
                j += 1;
            }
            j += 1;
            word_start = None;
            continue;
        }
        if c.is_ascii_alphabetic() {
            if word_start.is_none() {
                word_start = Some(j);
            }
        } else {
            if c == b'(' {
                let name = word_start.map_or("", |s| &c0[s..j]);
                stack.push(name.to_string());
            } else if c == b')' {
                stack.pop();
            } else if c == b'[' {
                stack.push("list".into());
            } else if c == b'{' {
                stack.push("dict".into());
            } else if c == b']' || c == b'}' {
                stack.pop();
            }
            word_start = None;
        }
        j += 1;
    }
    let named: Vec<&str> = stack.iter().map(|s| s.as_str()).filter(|s| !s.is_empty() && *s != "list" && *s != "dict").collect();
    match named.len() {
        0 => "top".into(),
        1 => named[0].to_string(),
        n => format!("{}>{}", named[n - 2], named[n - 1]),
    }
}

/// The one recorded (not repaired) C11 finding: a number literal that overflows to +-INF keeps its
/// unit when decoded, and Zinc has no spelling for a non-finite number with a unit. This returns
/// the value with those units removed, so that the finding is reported under its own signature
/// and never hides another difference in the same document.
/// Rebuilds a value with every leaf passed through `f` (`Some` replaces it).
fn map_leaves(v: &Value, f: &dyn Fn(&Value) -> Option<Value>) -> Value {
    let md = |d: &Dict| -> Dict {
        let mut out = Dict::new();
        for (k, x) in d.iter() {
            out.insert(k.clone(), map_leaves(x, f));
        }
        out
    };
    match v {
        Value::List(l) => Value::make_list(l.iter().map(|x| map_leaves(x, f)).collect()),
        Value::Dict(d) => Value::make_dict(md(d)),
        Value::Grid(g) => {
            let mut g2 = g.clone();
            g2.meta = g.meta.as_ref().map(&md);
            for c in g2.columns.iter_mut() {
                c.meta = c.meta.as_ref().map(&md);
            }
            g2.rows = g.rows.iter().map(&md).collect();
            Value::make_grid(g2)
        }
        other => f(other).unwrap_or_else(|| other.clone()),
    }
}

fn strip_nonfinite_units(v: &Value) -> Value {
    map_leaves(v, &|x| match x {
        Value::Number(n) if !n.value.is_finite() && n.unit.is_some() => Some(Value::make_number(n.value)),
        _ => None,
    })
}

/// Does the value hold a timestamp whose calendar year, seen in its own zone, is outside
/// 0000..=9999 (e.g. 9999-12-31T05:15:46-11:00 in a zone at +13:00)? Neither format can spell it.
fn has_year_beyond_four_digits(v: &Value) -> bool {
    use chrono::Datelike;
    let found = std::cell::Cell::new(false);
    let _ = map_leaves(v, &|x| {
        if let Value::DateTime(dt) = x {
            let y = dt.naive_local().year();
            if !(0..=9999).contains(&y) {
                found.set(true);
            }
        }
        None
    });
    found.get()
}

/// Timestamps whose zone offset at that instant is not a whole number of minutes (local mean
/// time before the zone adopted standard time, e.g. -07:52:58) replaced by a constant: the
/// known finding about them is recognised by "equal once these are taken out".
fn strip_subminute_offset_timestamps(v: &Value) -> Value {
    use chrono::Offset;
    map_leaves(v, &|x| match x {
        Value::DateTime(dt) if dt.offset().fix().local_minus_utc() % 60 != 0 => Some(Value::make_str("<timestamp with a sub-minute zone offset>")),
        _ => None,
    })
}

/// lazy-rows: equality with the contiguous run, consumption bound per yield, availability.
fn lazy_rows(case: &Case, doc: &[u8], plan: &ReadPlan) -> Result<(String, bool), (String, String)> {
    let len = doc.len();
    // reference: the same iterator over a contiguous cursor
    let mut cur = Cursor::new(doc);
    let mut ref_rows: Vec<String> = Vec::new();
    let ref_res = zinc_rows_over(&mut cur, len + 16, |_, item| {
        if let Ok(d) = item {
            ref_rows.push(canon(&Value::make_dict(d.clone())));
        }
    });
    if ref_res.is_err() {
        return Ok(("rejected".into(), false));
    }
    // the lazy entry point and the whole-value decode of the same text agree on the rows
    if let Ok(text) = std::str::from_utf8(doc) {
        if let Ok(Value::Grid(g)) = libhaystack::encoding::zinc::decode::from_str(text) {
            let whole: Vec<String> = g.rows.iter().map(|d| canon(&Value::make_dict(d.clone()))).collect();
            if whole != ref_rows {
                let k = whole.iter().zip(ref_rows.iter()).take_while(|(a, b)| a == b).count();
                return Err((
                    "C11 lazy-rows rows differ from the rows of the whole-value decode".into(),
                    format!("first difference at row {k}: the lazy iterator yields {} rows, the grid decoded from the same text has {}", ref_rows.len(), whole.len()),
                ));
            }
        }
    }
    // marks: from the generator when present, cross-checked against the independent tokenizer
    let (header_end, line_ends): (usize, Vec<usize>) = match (case.extra_usize("header_end"), case.extra.get("row_ends")) {
        (Some(h), Some(serde_json::Value::Array(a))) => (h, a.iter().filter_map(|x| x.as_u64()).map(|x| x as usize).collect()),
        _ => match scan_rows(doc) {
            Some(m) => m,
            None => return Ok(("no-marks".into(), false)),
        },
    };
    if let Some((h2, r2)) = scan_rows(doc) {
        if case.extra.contains_key("row_ends") && (h2 != header_end || r2 != line_ends) {
            return Err(("C11 harness row marks of generator and tokenizer disagree".into(), format!("{header_end} {line_ends:?} vs {h2} {r2:?}")));
        }
    }
    // rows the library sees may be fewer than the marks (a last row without terminator is
    // dropped by the library — recorded in DESIGN.md section 7, not a C11 matter)
    if ref_rows.len() > line_ends.len() {
        return Err(("C11 harness more rows decoded than row marks".into(), format!("{} rows, {} marks", ref_rows.len(), line_ends.len())));
    }
    // 1 + 2: streamed run with a byte counter read at every yield
    let mut r = SimReader::new(doc, plan).with_budget(4 * len as u64 + 1024, u64::MAX);
    let stats = r.stats.clone();
    let mut rows: Vec<String> = Vec::new();
    let mut worst: Option<(usize, usize, usize)> = None;
    let res = zinc_rows_over(&mut r, len + 16, |k, item| {
        if let Ok(d) = item {
            rows.push(canon(&Value::make_dict(d.clone())));
            let delivered = stats.delivered.get();
            if let Some(le) = line_ends.get(k) {
                let tok_end = first_token_end_after(doc, *le);
                OVERSHOOT.with(|o| o.set(o.get().max(delivered.saturating_sub(tok_end.min(len)))));
                let bound = tok_end + LOOKAHEAD;
                if delivered > bound.min(len) && worst.is_none() {
                    worst = Some((k, delivered, bound));
                }
            }
        }
    });
    if let Err(e) = res {
        return Err(("C11 lazy-rows stream run fails where the contiguous run succeeds".into(), e.to_string()));
    }
    if rows != ref_rows {
        let k = rows.iter().zip(ref_rows.iter()).take_while(|(a, b)| a == b).count();
        return Err(("C11 lazy-rows rows differ from the contiguous decode".into(), format!("first difference at row {k}: {} rows vs {}", rows.len(), ref_rows.len())));
    }
    if let Some((k, delivered, bound)) = worst {
        return Err((
            "C11 lazy-rows row yielded after consuming beyond the first token after it".into(),
            format!("row {k} was yielded with {delivered} bytes consumed; the first token after the row ends at {} (+{LOOKAHEAD} scanner look-ahead) of {len}", bound - LOOKAHEAD),
        ));
    }
    // the iterator's other entry points (nth, skip, step_by) must hand out the same rows as next()
    if ref_rows.len() >= 2 {
        let fresh = |f: &mut dyn FnMut(&mut dyn Iterator<Item = Result<Dict, std::io::Error>>) -> Vec<Option<String>>| -> Result<Vec<Option<String>>, (String, String)> {
            let mut cur = Cursor::new(doc);
            let mut p = libhaystack::encoding::zinc::decode::parser::Parser::make(&mut cur).map_err(|e| ("C11 lazy-rows parser make failed".to_string(), e.to_string()))?;
            let mut it = libhaystack::encoding::zinc::decode::parse_grid_iterator(&mut p).map_err(|e| ("C11 lazy-rows iterator creation failed".to_string(), e.to_string()))?;
            Ok(f(&mut it))
        };
        let render = |x: Option<Result<Dict, std::io::Error>>| -> Option<String> { x.and_then(|r| r.ok()).map(|d| canon(&Value::make_dict(d))) };
        let n = ref_rows.len();
        for k in [1usize, n / 2, n - 1] {
            let got = fresh(&mut |it| vec![render(it.nth(k))])?;
            if got[0].as_ref() != Some(&ref_rows[k]) {
                return Err(("C11 lazy-rows nth(k) differs from the k-th row of plain iteration".into(), format!("k={k} of {n} rows")));
            }
            let got = fresh(&mut |it| vec![render(it.skip(k).next())])?;
            if got[0].as_ref() != Some(&ref_rows[k]) {
                return Err(("C11 lazy-rows skip(k).next() differs from the k-th row of plain iteration".into(), format!("k={k} of {n} rows")));
            }
        }
        let got = fresh(&mut |it| it.step_by(2).take(n).map(|x| render(Some(x))).collect())?;
        let want: Vec<Option<String>> = ref_rows.iter().step_by(2).map(|r| Some(r.clone())).collect();
        if got != want {
            return Err(("C11 lazy-rows step_by(2) differs from every second row of plain iteration".into(), format!("{} rows vs {}", got.len(), want.len())));
        }
    }
    // creating the iterator may consume header, columns and the first token of row 0
    {
        let mut r0 = SimReader::new(doc, plan);
        let st = r0.stats.clone();
        let mut p = libhaystack::encoding::zinc::decode::parser::Parser::make(&mut r0).map_err(|e| ("C11 lazy-rows parser make failed".to_string(), e.to_string()))?;
        let it = libhaystack::encoding::zinc::decode::parse_grid_iterator(&mut p).map_err(|e| ("C11 lazy-rows iterator creation failed".to_string(), e.to_string()))?;
        let used = st.delivered.get();
        let bound = first_token_end_after(doc, header_end) + LOOKAHEAD;
        drop(it);
        if used > bound.min(len) {
            return Err(("C11 lazy-rows iterator creation consumed beyond the first row token".into(), format!("{used} bytes consumed, bound {bound}")));
        }
    }
    // letting go of the iterator after some rows reads nothing: a caller that has seen what it
    // wanted of a grid that is still arriving is not made to wait for the rest
    for take in [0usize, 1, ref_rows.len() / 2] {
        if take >= ref_rows.len() {
            continue;
        }
        let mut r1 = SimReader::new(doc, plan);
        let st = r1.stats.clone();
        let mut p = libhaystack::encoding::zinc::decode::parser::Parser::make(&mut r1).map_err(|e| ("C11 lazy-rows parser make failed".to_string(), e.to_string()))?;
        let mut it = libhaystack::encoding::zinc::decode::parse_grid_iterator(&mut p).map_err(|e| ("C11 lazy-rows iterator creation failed".to_string(), e.to_string()))?;
        for _ in 0..take {
            let _ = it.next();
        }
        let before = st.delivered.get();
        drop(it);
        let after = st.delivered.get();
        if after != before {
            return Err((
                "C11 lazy-rows dropping the iterator consumes the stream".into(),
                format!("after {take} of {} rows {before} bytes had been consumed; dropping the iterator consumed {} more (of {len})", ref_rows.len(), after - before),
            ));
        }
    }
    // 3: availability — the prefix that ends with the first token after row k yields rows 0..=k
    let ks: Vec<usize> = if ref_rows.len() <= 4 { (0..ref_rows.len()).collect() } else { vec![0, ref_rows.len() / 2, ref_rows.len() - 1] };
    for k in ks {
        let cut = first_token_end_after(doc, line_ends[k]).min(len);
        let mut pplan = plan.clone();
        pplan.truncate = Some(cut);
        let mut r = SimReader::new(doc, &pplan).with_budget(4 * len as u64 + 1024, u64::MAX);
        let mut got: Vec<String> = Vec::new();
        let _ = zinc_rows_over(&mut r, len + 16, |_, item| {
            if let Ok(d) = item {
                got.push(canon(&Value::make_dict(d.clone())));
            }
        });
        if got.len() < k + 1 || got[..=k] != ref_rows[..=k] {
            return Err((
                "C11 lazy-rows received row not available from the prefix ending with the first token after it".into(),
                format!("prefix of {cut} bytes (row {k} ends at {}): {} rows yielded, expected at least {}", line_ends[k], got.len(), k + 1),
            ));
        }
    }
    Ok((format!("{} rows {}", rows.len(), fnv1a(rows.join("|").as_bytes())), true))
}

// ---------------------------------------------------------------------------------------------

fn soft_read_plan(rng: &mut Rng, len: usize, tokens: &[(usize, usize)]) -> ReadPlan {
    crate::c03::random_read_plan(rng, len, tokens, false)
}

fn soft_write_plan(rng: &mut Rng) -> WritePlan {
    let mut p = WritePlan { chunk_seed: rng.next_u64(), ..Default::default() };
    p.chunk = match rng.below(6) {
        0 => Chunk::Full,
        1 => Chunk::One,
        2 => Chunk::Random(1 + rng.usize(8)),
        3 => Chunk::Pow2,
        4 => Chunk::AllButOne,
        _ => Chunk::Fixed(1 + rng.usize(5)),
    };
    let n = *rng.pick(&[0usize, 0, 1, 3]);
    for _ in 0..n {
        p.eintr.push((rng.below(64), 1 + rng.below(4) as u32));
    }
    p
}

impl C11 {
    fn sizes(&self) -> (usize, usize) {
        // (search units, cases per unit)
        match self.ctx.tier {
            Tier::Quick => (256, 8000),
            Tier::Thorough => (4096, 40000),
        }
    }
}

impl Engine for C11 {
    fn prop(&self) -> &'static str {
        "C11"
    }

    fn units(&self) -> Vec<UnitSpec> {
        let (n, _) = self.sizes();
        let mut units: Vec<UnitSpec> = (0..n as u64).map(|i| UnitSpec { id: i, name: format!("search:{i}"), isolated: false, exhaustive: false }).collect();
        units.push(UnitSpec { id: n as u64, name: "corpus".into(), isolated: false, exhaustive: false });
        units
    }

    fn cases(&self, unit: &UnitSpec) -> Box<dyn Iterator<Item = Case> + '_> {
        if unit.name == "corpus" {
            return Box::new(self.corpus_cases().into_iter());
        }
        let (_, per) = self.sizes();
        let unit_seed = mix(&[self.ctx.seed, fnv1a(b"C11-search"), unit.id]);
        let uname = unit.name.clone();
        Box::new((0..per as u64).map(move |sub| {
            let rng = Rng::new(mix(&[unit_seed, sub]));
            let mut wl = rng.fork("workload");
            let mut sch = rng.fork("schedule");
            let mut mu = rng.fork("mutation");
            let flavour = wl.below(10);
            let mut c;
            if flavour < 7 {
                let mut cfg = GenCfg::swarm(&mut wl);
                let scenario = *wl.pick(&["chunked-read", "lazy-rows", "lazy-rows", "pipe-zinc", "pipe-zinc"]);
                if scenario == "lazy-rows" {
                    cfg.max_rows = cfg.max_rows.max(2);
                }
                let doc = gen_zinc::gen_doc(&mut wl, &cfg, if scenario == "lazy-rows" { Some("grid") } else { None });
                let mut text = doc.text.clone();
                let mut mutated = None;
                if scenario != "lazy-rows" && mu.chance(1, 4) {
                    // accepted mutants: keep the mutation only if the buffer decoder still accepts
                    let dcfg = GenCfg::swarm(&mut wl);
                    let donor = gen_zinc::gen_doc(&mut wl, &dcfg, None);
                    let mut t2 = text.clone();
                    let name = mutate::random_op(&mut mu, &mut t2, &doc.tokens, &donor.text, &donor.tokens);
                    if std::str::from_utf8(&t2).ok().is_some_and(|s| zinc_from_str(s).is_ok()) {
                        text = t2;
                        mutated = Some(name);
                    }
                }
                c = Case::new("C11", scenario, &text);
                c.read = soft_read_plan(&mut sch, text.len(), &doc.tokens);
                c.write = soft_write_plan(&mut sch);
                if scenario == "lazy-rows" {
                    if let Some(h) = doc.header_end {
                        c.extra.insert("header_end".into(), (h as u64).into());
                        c.extra.insert("row_ends".into(), doc.rows.iter().map(|r| r.line_end as u64).collect::<Vec<u64>>().into());
                    }
                }
                if let Some(m) = mutated {
                    c.extra.insert("mutation".into(), m.into());
                }
            } else {
                let cfg = JsonCfg::swarm(&mut wl);
                let mut text = gen_json::gen_doc(&mut wl, &cfg);
                let mut mutated = None;
                if mu.chance(1, 4) {
                    let mut t2 = text.clone();
                    let name = mutate::random_op(&mut mu, &mut t2, &[], &[], &[]);
                    if serde_json::from_slice::<Value>(&t2).is_ok() {
                        text = t2;
                        mutated = Some(name);
                    }
                } else if text.len() <= 1500 && mu.chance(1, 4) {
                    // one member-level fault (repeated / moved / foreign member), kept when still accepted
                    let variants = mutate::json_member_variants(&text);
                    if !variants.is_empty() {
                        let k = mu.below(variants.len() as u64) as usize;
                        if serde_json::from_slice::<Value>(&variants[k].1).is_ok() {
                            text = variants[k].1.clone();
                            mutated = Some("json-members");
                        }
                    }
                }
                c = Case::new("C11", "pipe-json", &text);
                c.read = soft_read_plan(&mut sch, text.len(), &[]);
                c.write = soft_write_plan(&mut sch);
                if let Some(m) = mutated {
                    c.extra.insert("mutation".into(), m.into());
                }
            }
            c.origin = format!("{uname} sub={sub}");
            c
        }))
    }

    fn run(&self, case: &Case) -> Outcome {
        run_case(case)
    }

    fn isolate_every(&self, _unit: &UnitSpec) -> Option<u64> {
        // process-wide or per-thread state left behind by earlier decodes must not change a result
        Some(128)
    }

    fn rule(&self) -> String {
        "seeded search: (accepted text: grammar-generated Zinc/Hayson with random legal spellings, accepted mutants, corpus files and windows) x (read schedule: chunk style incl. 1-byte, EINTR bursts and stalls placed at token boundaries) x (write schedule: short writes, EINTR) through chunked-read / lazy-rows / pipe-zinc / pipe-json; a case is non-trivial when the text was accepted and its schedule actually splits the stream or injects EINTR; distinct = distinct (scenario, text, schedule)".into()
    }

    fn components(&self) -> (Vec<&'static str>, Vec<&'static str>) {
        (
            vec!["zinc scanner/lexer/parser", "RowIterator / parse_grid_iterator", "zinc encoder (ToZinc for every kind)", "Hayson Serialize + Deserialize impls", "serde_json"],
            vec!["byte channel in (SimReader)", "byte channel out (SimWriter)"],
        )
    }
}

impl C11 {
    fn corpus_cases(&self) -> Vec<Case> {
        let mut cases = Vec::new();
        let mut rng = Rng::new(mix(&[self.ctx.seed, fnv1a(b"C11-corpus")]));
        let thorough = self.ctx.tier == Tier::Thorough;
        for (name, kind, text) in corpus::whole_files(&self.ctx) {
            let big = text.len() > 400_000;
            let scenarios: &[&str] = if kind == "zinc" { &["chunked-read", "lazy-rows", "pipe-zinc"] } else { &["pipe-json"] };
            for scenario in scenarios {
                let reps = if thorough { 3 } else { 1 };
                for rep in 0..reps {
                    if big && !thorough && *scenario != "lazy-rows" {
                        continue;
                    }
                    let mut c = Case::new("C11", scenario, &text);
                    c.read = soft_read_plan(&mut rng, text.len(), &[]);
                    if big {
                        // 1-byte reads over the 790 KB file are run in the thorough tier only
                        c.read.chunk = if thorough && rep == 0 { Chunk::One } else { Chunk::Random(4096) };
                    }
                    c.write = soft_write_plan(&mut rng);
                    c.origin = format!("corpus {name} {scenario} rep={rep}");
                    cases.push(c);
                }
            }
        }
        // hand-picked snippets and corpus windows through every scenario
        let mut snippets = corpus::zinc_snippets(&self.ctx);
        snippets.extend(corpus::ZINC_HAND.iter().enumerate().map(|(i, s)| (format!("hand{i}"), s.as_bytes().to_vec())).take(0));
        for (name, text) in snippets {
            for scenario in ["chunked-read", "pipe-zinc", "lazy-rows"] {
                if scenario == "lazy-rows" && !text.starts_with(b"ver:") {
                    continue;
                }
                for rep in 0..4 {
                    let mut c = Case::new("C11", scenario, &text);
                    c.read = soft_read_plan(&mut rng, text.len(), &[]);
                    c.write = soft_write_plan(&mut rng);
                    c.origin = format!("corpus {name} {scenario} rep={rep}");
                    cases.push(c);
                }
            }
        }
        for (name, text) in corpus::json_snippets(&self.ctx) {
            for rep in 0..4 {
                let mut c = Case::new("C11", "pipe-json", &text);
                c.read = soft_read_plan(&mut rng, text.len(), &[]);
                c.write = soft_write_plan(&mut rng);
                c.origin = format!("corpus {name} pipe-json rep={rep}");
                cases.push(c);
            }
        }
        cases
    }
}

//! Hayson (JSON) workload generator: random legal spellings of every Hayson kind, member
//! order (including `_kind` not first), white space, number and string spellings.

use crate::gen_zinc::{UNITS, ZONES, ZONE_OFFS};
use crate::rng::Rng;

#[derive(Clone, Debug)]
pub struct JsonCfg {
    pub max_depth: usize,
    pub max_items: usize,
    pub p_space: u64,
    pub p_nonascii: u64,
    pub p_escape: u64,
    pub p_shuffle_keys: u64,
    pub exotic: bool,
    /// size outlier (see GenCfg::big)
    pub big: Option<usize>,
}

impl JsonCfg {
    pub fn swarm(rng: &mut Rng) -> JsonCfg {
        JsonCfg {
            max_depth: rng.range(0, 3),
            max_items: rng.range(1, 5),
            p_space: *rng.pick(&[0, 200, 700]),
            p_nonascii: *rng.pick(&[0, 100, 400]),
            p_escape: *rng.pick(&[0, 100, 400]),
            p_shuffle_keys: *rng.pick(&[0, 300, 1000]),
            exotic: true,
            big: if rng.chance(1, 40) { Some(*rng.pick(&[127usize, 128, 129, 255, 256, 257, 300, 1023, 1024, 1025, 4097, 4099, 8191, 65535, 65537])) } else { None },
        }
    }
}

pub struct JEmitter<'r> {
    pub out: String,
    pub rng: &'r mut Rng,
    pub cfg: JsonCfg,
}

const NONASCII: &[&str] = &["é", "ü", "€", "Ω", "中", "𝄞", "😀", "ß"];

/// strings that look like Zinc / Hayson syntax: sigils doubled, keywords, literals of other kinds
const TRICKY_TEXT: &[&str] = &[
    "^^site", "^site", "^", "@ref", "@@r", "@", "`u`", "``", "N", "M", "T", "F", "NA", "R", "INF", "-INF", "NaN", "2021-01-01", "12:00:00", "2021-01-01T00:00:00Z", "C(1,2)", "Bin(\\\"x\\\")", "{a}", "[1]", "<<", ">>",
    "1kW", "-1", "ver:\\\"3.0\\\"", "_kind", "null", "true", "n:1", "s:x", "r:abc", "m:", "z:", "x:Bin:y", "u:http", "d:2021-01-01", "h:12:00", "t:2021-01-01T00:00:00Z UTC", "c:1,2",
];

/// (kind, spelled `val`) at and beyond the edges of the kinds
const EDGE_JSON: &[(&str, &str)] = &[
    ("date", "\"0000-01-01\""), ("date", "\"9999-12-31\""), ("date", "\"2020-02-29\""), ("date", "\"2021-02-29\""), ("date", "\"2021-13-01\""), ("date", "\"10000-01-01\""), ("date", "\"\""), ("date", "20210101"),
    ("time", "\"24:00:00\""), ("time", "\"23:59:60\""), ("time", "\"23:59:59.999999999\""), ("time", "\"12:00:00.9999999999\""), ("time", "\"7:05:00\""), ("time", "\"12:34\""), ("time", "\"00:00:00.\""),
    ("dateTime", "\"2021-06-07T23:59:60Z\""), ("dateTime", "\"2021-06-07T12:00:00+14:00\""), ("dateTime", "\"2021-06-07T12:00:00-12:00\""), ("dateTime", "\"2021-06-07T12:00:00+05:45\""), ("dateTime", "\"2021-06-07T12:00:00+24:00\""),
    ("dateTime", "\"2021-03-14T02:30:00-05:00\""), ("dateTime", "\"2021-11-07T01:30:00-04:00\""), ("dateTime", "\"2021-11-07T01:30:00-05:00\""), ("dateTime", "\"1883-11-18T12:00:00-05:00\""), ("dateTime", "\"2021-06-07T12:00:00.123456789Z\""),
    ("dateTime", "\"2021-06-07T12:00:00\""), ("dateTime", "\"2021-06-07 12:00:00Z\""), ("dateTime", "\"2021-06-07T12:00:00-00:00\""), ("dateTime", "\"2021-06-07T12:00:00+01:00\""),
    ("number", "255"), ("number", "256"), ("number", "65536"), ("number", "2147483647"), ("number", "2147483648"), ("number", "-2147483649"), ("number", "4294967296"), ("number", "9007199254740992"), ("number", "9007199254740994.0"),
    ("number", "9223372036854775807"), ("number", "9223372036854775808"), ("number", "-9223372036854775808"), ("number", "1.7e18"), ("number", "18446744073709551615"), ("number", "0.1"), ("number", "1E5"), ("number", "-0.0"),
    ("number", "1e308"), ("number", "1.7976931348623157e308"), ("number", "4.9e-324"), ("number", "1e-400"), ("number", "\"INF\""), ("number", "\"-INF\""), ("number", "\"NaN\""), ("number", "\"1\""), ("number", "18446744073709551616"), ("number", "-9223372036854775809"),
    ("coord", "1"), ("xstr", "\"v\""), ("uri", "\"\""), ("symbol", "\"\""), ("ref", "\"\""), ("ref", "\"a b\""), ("symbol", "\"a b\""),
];

impl<'r> JEmitter<'r> {
    fn ws(&mut self) {
        if self.rng.chance(self.cfg.p_space, 1000) {
            let s = *self.rng.pick(&[" ", "  ", "\n", "\t", "\r\n "]);
            self.out.push_str(s);
        }
    }

    fn string_body(&mut self) -> String {
        if self.cfg.exotic && self.rng.chance(1, 12) {
            // text that looks like the syntax of some kind (its own or another)
            return self.rng.pick_str(TRICKY_TEXT).to_string();
        }
        let mut n = self.rng.range(0, 8);
        if let Some(big) = self.cfg.big {
            if self.rng.chance(1, 3) {
                n = big;
                self.cfg.big = None;
            }
        }
        let mut s = String::new();
        for _ in 0..n {
            if self.rng.chance(self.cfg.p_escape, 1000) {
                s.push_str(self.rng.pick_str(&["\\n", "\\t", "\\\\", "\\\"", "\\/", "\\u00e9", "\\u0001", "\\ud834\\udd1e", "\\b", "\\f", "\\r", "\\u0000"]));
            } else if self.rng.chance(self.cfg.p_nonascii, 1000) {
                s.push_str(self.rng.pick_str(NONASCII));
            } else {
                const PLAIN: &[u8] = b"abcxyzABC019 _-.,:;/?#[]{}()<>@^!=*+|~%&'$`";
                s.push(*self.rng.pick(PLAIN) as char);
            }
        }
        s
    }

    fn string(&mut self) {
        let b = self.string_body();
        self.out.push('"');
        self.out.push_str(&b);
        self.out.push('"');
    }

    fn digits(&mut self, n: usize) -> String {
        (0..n).map(|_| (b'0' + self.rng.below(10) as u8) as char).collect()
    }

    pub fn number_text(&mut self) -> String {
        match self.rng.below(12) {
            0 => return "0".into(),
            1 => return "-0".into(),
            2 => return "-0.0".into(),
            3 => return "1e19".into(),
            4 => return "18446744073709551615".into(),
            5 => return "9007199254740993".into(),
            6 => return "-9223372036854775808".into(),
            _ => {}
        }
        let mut s = String::new();
        if self.rng.chance(1, 4) {
            s.push('-');
        }
        let first = 1 + self.rng.below(9);
        s.push_str(&first.to_string());
        let n = self.rng.range(0, 5);
        s.push_str(&self.digits(n));
        if self.rng.chance(1, 2) {
            s.push('.');
            let n = self.rng.range(1, 6);
            s.push_str(&self.digits(n));
        }
        if self.rng.chance(1, 5) {
            s.push(*self.rng.pick(&['e', 'E']));
            match self.rng.below(3) {
                0 => s.push('+'),
                1 => s.push('-'),
                _ => {}
            }
            let n = self.rng.range(1, 2);
            s.push_str(&self.digits(n));
        }
        s
    }

    fn id(&mut self) -> String {
        const HEAD: &[u8] = b"abcdefghijklmnopqrstuvwxyz";
        const TAIL: &[u8] = b"abcdefghijklmnopqrstuvwxyzABCXYZ0123456789_";
        let n = self.rng.range(1, 7);
        let mut s = String::new();
        s.push(*self.rng.pick(HEAD) as char);
        for _ in 1..n {
            s.push(*self.rng.pick(TAIL) as char);
        }
        s
    }

    /// emit an object from already spelled (key, value-text) members, in a drawn order
    fn object(&mut self, mut members: Vec<(String, String)>) {
        if self.rng.chance(self.cfg.p_shuffle_keys, 1000) {
            self.rng.shuffle(&mut members);
        }
        self.out.push('{');
        let n = members.len();
        for (i, (k, v)) in members.into_iter().enumerate() {
            self.ws();
            self.out.push('"');
            self.out.push_str(&k);
            self.out.push('"');
            self.ws();
            self.out.push(':');
            self.ws();
            self.out.push_str(&v);
            self.ws();
            if i + 1 < n {
                self.out.push(',');
            }
        }
        self.out.push('}');
    }

    fn sub<F: FnOnce(&mut JEmitter)>(&mut self, f: F) -> String {
        let saved = std::mem::take(&mut self.out);
        f(self);
        std::mem::replace(&mut self.out, saved)
    }

    fn quoted(&mut self, s: &str) -> String {
        format!("\"{s}\"")
    }

    pub fn scalar(&mut self) {
        if self.cfg.exotic && self.rng.chance(1, 16) {
            // scalars at and beyond the edges of their kinds (accepted or not)
            let (kind, val) = *self.rng.pick(EDGE_JSON);
            let mut m = vec![("_kind".to_string(), format!("\"{kind}\"")), ("val".to_string(), val.to_string())];
            if kind == "dateTime" && self.rng.chance(1, 2) {
                let tz = *self.rng.pick(&["New_York", "UTC", "Kathmandu", "Kiritimati", "GMT+12", "Etc/GMT-1", "Nowhere", "", "Z"]);
                m.push(("tz".into(), format!("\"{tz}\"")));
            }
            if kind == "number" && self.rng.chance(1, 3) {
                m.push(("unit".into(), "\"kW\"".into()));
            }
            return self.object(m);
        }
        match self.rng.weighted(&[2, 2, 8, 8, 2, 1, 1, 4, 3, 3, 3, 3, 3, 3, 2, 2]) {
            0 => self.out.push_str("null"),
            1 => {
                let b = *self.rng.pick(&["true", "false"]);
                self.out.push_str(b)
            }
            2 => {
                let n = self.number_text();
                self.out.push_str(&n)
            }
            3 => self.string(),
            4 => self.object(vec![("_kind".into(), "\"marker\"".into())]),
            5 => self.object(vec![("_kind".into(), "\"na\"".into())]),
            6 => self.object(vec![("_kind".into(), "\"remove\"".into())]),
            7 => {
                let n = self.number_text();
                let mut m = vec![("_kind".to_string(), "\"number\"".to_string()), ("val".into(), n)];
                if self.rng.chance(2, 3) {
                    let u = self.rng.pick(UNITS).to_string();
                    m.push(("unit".into(), self.quoted(&u)));
                }
                self.object(m)
            }
            8 => {
                let v = if self.cfg.exotic && self.rng.chance(1, 6) { self.rng.pick_str(TRICKY_TEXT).to_string() } else { self.id() };
                let mut m = vec![("_kind".to_string(), "\"ref\"".to_string()), ("val".into(), self.quoted(&v))];
                if self.rng.chance(1, 2) {
                    let d = self.sub(|e| e.string());
                    m.push(("dis".into(), d));
                }
                self.object(m)
            }
            9 => {
                let v = if self.cfg.exotic && self.rng.chance(1, 6) { self.rng.pick_str(TRICKY_TEXT).to_string() } else { self.id() };
                let v = self.quoted(&v);
                self.object(vec![("_kind".into(), "\"symbol\"".into()), ("val".into(), v)])
            }
            10 => {
                let v = self.sub(|e| e.string());
                self.object(vec![("_kind".into(), "\"uri\"".into()), ("val".into(), v)])
            }
            11 => {
                let v = format!("\"{:04}-{:02}-{:02}\"", self.rng.range(1900, 2100), self.rng.range(1, 12), self.rng.range(1, 28));
                self.object(vec![("_kind".into(), "\"date\"".into()), ("val".into(), v)])
            }
            12 => {
                let mut t = format!("{:02}:{:02}:{:02}", self.rng.range(0, 23), self.rng.range(0, 59), self.rng.range(0, 59));
                if self.rng.chance(1, 3) {
                    t.push('.');
                    let n = *self.rng.pick(&[1usize, 3, 6, 9]);
                    t.push_str(&self.digits(n));
                }
                let v = self.quoted(&t);
                self.object(vec![("_kind".into(), "\"time\"".into()), ("val".into(), v)])
            }
            13 if self.cfg.exotic && self.rng.chance(1, 3) => {
                let (ts, zone) = crate::gen_zinc::zoned_instant(self.rng);
                let m = vec![("_kind".to_string(), "\"dateTime\"".to_string()), ("val".to_string(), format!("\"{ts}\"")), ("tz".to_string(), format!("\"{zone}\""))];
                self.object(m)
            }
            13 => {
                let date = format!("2021-06-{:02}", self.rng.range(1, 28));
                let time = format!("{:02}:{:02}:{:02}", self.rng.range(0, 23), self.rng.range(0, 59), self.rng.range(0, 59));
                let mut m = vec![("_kind".to_string(), "\"dateTime\"".to_string())];
                match self.rng.below(4) {
                    0 => m.push(("val".into(), format!("\"{date}T{time}Z\""))),
                    1 => {
                        m.push(("val".into(), format!("\"{date}T{time}Z\"")));
                        m.push(("tz".into(), "\"UTC\"".into()));
                    }
                    _ => {
                        let i = self.rng.usize(ZONES.len());
                        m.push(("val".into(), format!("\"{date}T{time}{}\"", ZONE_OFFS[i])));
                        m.push(("tz".into(), format!("\"{}\"", ZONES[i])));
                    }
                }
                self.object(m)
            }
            14 => {
                let lat = self.rng.range(0, 180) as f64 - 90.0 + (self.rng.below(1000) as f64) / 1000.0;
                let lng = self.rng.range(0, 360) as f64 - 180.0 + (self.rng.below(1000) as f64) / 1000.0;
                self.object(vec![("_kind".into(), "\"coord\"".into()), ("lat".into(), lat.to_string()), ("lng".into(), lng.to_string())])
            }
            _ => {
                let ty = self.rng.pick(&["Bin", "Foo", "Span"]).to_string();
                let v = self.sub(|e| e.string());
                let ty = self.quoted(&ty);
                self.object(vec![("_kind".into(), "\"xstr\"".into()), ("type".into(), ty), ("val".into(), v)])
            }
        }
    }

    pub fn value(&mut self, depth: usize) {
        if depth >= self.cfg.max_depth {
            return self.scalar();
        }
        match self.rng.weighted(&[10, 3, 3, 2]) {
            0 => self.scalar(),
            1 => self.list(depth + 1),
            2 => self.dict(depth + 1),
            _ => self.grid(depth + 1),
        }
    }

    pub fn list(&mut self, depth: usize) {
        self.out.push('[');
        let mut n = self.rng.range(0, self.cfg.max_items);
        if let Some(big) = self.cfg.big {
            if big <= 4097 && self.rng.chance(1, 3) {
                n = big;
                self.cfg.big = None;
            }
        }
        for i in 0..n {
            self.ws();
            self.value(depth);
            self.ws();
            if i + 1 < n {
                self.out.push(',');
            }
        }
        self.out.push(']');
    }

    fn dict_members(&mut self, depth: usize) -> Vec<(String, String)> {
        let n = self.rng.range(0, self.cfg.max_items);
        let mut m: Vec<(String, String)> = Vec::new();
        for _ in 0..n {
            let mut k = self.id();
            while m.iter().any(|(kk, _)| *kk == k) {
                k.push('q');
            }
            let v = self.sub(|e| e.value(depth));
            m.push((k, v));
        }
        m
    }

    pub fn dict(&mut self, depth: usize) {
        let mut m = self.dict_members(depth);
        if self.rng.chance(1, 5) {
            m.insert(0, ("_kind".into(), "\"dict\"".into()));
        }
        self.object(m)
    }

    pub fn grid(&mut self, depth: usize) {
        // degenerate shapes included: no columns at all (with or without rows)
        let ncols = if self.cfg.exotic && self.rng.chance(1, 12) { 0 } else { self.rng.range(1, 4) };
        let mut nrows = self.rng.range(0, 4);
        let mut ncols = ncols;
        if let Some(big) = self.cfg.big {
            if big <= 8191 && self.rng.chance(1, 3) {
                if big <= 1025 && self.rng.chance(1, 2) {
                    ncols = big;
                } else {
                    nrows = big;
                }
                self.cfg.big = None;
                self.cfg.exotic = false;
                self.cfg.max_depth = self.cfg.max_depth.min(1);
            }
        }
        let mut cols: Vec<String> = Vec::new();
        for _ in 0..ncols {
            let mut k = self.id();
            while cols.contains(&k) {
                k.push('q');
            }
            cols.push(k);
        }
        let col_text: Vec<String> = cols
            .iter()
            .map(|c| {
                let mut m = vec![("name".to_string(), format!("\"{c}\""))];
                if self.rng.chance(1, 4) {
                    let meta = self.sub(|e| {
                        let mm = e.dict_members(depth);
                        e.object(mm)
                    });
                    m.push(("meta".into(), meta));
                }
                self.sub(|e| e.object(m))
            })
            .collect();
        let mut rows: Vec<String> = Vec::new();
        for _ in 0..nrows {
            let mut m: Vec<(String, String)> = Vec::new();
            for c in &cols {
                if self.rng.chance(3, 4) {
                    let v = self.sub(|e| e.value(depth));
                    m.push((c.clone(), v));
                }
            }
            // a row may carry a tag that no column declares (the decoder keeps it)
            if self.cfg.exotic && self.rng.chance(1, 6) {
                let mut k = self.id();
                while cols.contains(&k) {
                    k.push('z');
                }
                let v = self.sub(|e| e.value(depth));
                m.push((k, v));
            }
            rows.push(self.sub(|e| e.object(m)));
        }
        let mut m = vec![("_kind".to_string(), "\"grid\"".to_string())];
        if self.rng.chance(3, 4) {
            let meta = self.sub(|e| {
                let mut mm = if e.rng.chance(1, 2) { e.dict_members(depth) } else { Vec::new() };
                if e.rng.chance(1, 2) {
                    mm.insert(0, ("ver".into(), "\"3.0\"".into()));
                }
                e.object(mm)
            });
            m.push(("meta".into(), meta));
        }
        m.push(("cols".into(), format!("[{}]", col_text.join(","))));
        m.push(("rows".into(), format!("[{}]", rows.join(","))));
        self.object(m)
    }
}

pub fn gen_doc(rng: &mut Rng, cfg: &JsonCfg) -> Vec<u8> {
    let mut em = JEmitter { out: String::new(), rng, cfg: cfg.clone() };
    em.ws();
    match em.rng.below(6) {
        0 => em.scalar(),
        1 => em.list(1),
        2 => em.dict(1),
        3 | 4 => em.grid(1),
        _ => em.value(0),
    }
    em.ws();
    em.out.into_bytes()
}

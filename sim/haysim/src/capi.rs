//! capisim — call histories over the C API with a per-operation reference model (C17, C18).
//!
//! The *caller* is simulated: 1–4 real OS threads (the error slot is a real `thread_local!`), each
//! parked on a channel; the simulator hands exactly one operation at a time to exactly one thread,
//! so the interleaving of calls is decided by the history (which is decided by the seed) and
//! nothing runs concurrently. A pool of handle slots holds the raw pointers the C functions
//! returned, next to a *shadow*: the Rust value the same operation yields through the Rust API.
//!
//! One `step` computes what the Rust API says (the model), performs the real call, and compares.
//! With `exec == false` only the model half runs; the history generator uses that to know which
//! kinds live in which slots.

use crate::harness::*;
use crate::rng::{fnv1a, mix};
use chrono::{NaiveDateTime, Offset, TimeZone, Utc};
use libhaystack::c_api::coord::*;
use libhaystack::c_api::date::*;
use libhaystack::c_api::datetime::*;
use libhaystack::c_api::dict::*;
use libhaystack::c_api::err::last_error_message;
use libhaystack::c_api::filter::*;
use libhaystack::c_api::grid::*;
use libhaystack::c_api::json::*;
use libhaystack::c_api::list::*;
use libhaystack::c_api::number::*;
use libhaystack::c_api::reference::*;
use libhaystack::c_api::str::*;
use libhaystack::c_api::symbol::*;
use libhaystack::c_api::time::*;
use libhaystack::c_api::uri::*;
use libhaystack::c_api::value::*;
use libhaystack::c_api::xstr::*;
use libhaystack::c_api::zinc::*;
use libhaystack::c_api::ResultType;
use libhaystack::encoding::zinc::decode::from_str as zinc_from_str;
use libhaystack::encoding::zinc::encode::to_zinc_string;
use libhaystack::filter::{Filter, Filtered};
use libhaystack::timezone::make_date_time_with_tz;
use libhaystack::units::get_unit;
use libhaystack::val::*;
use serde::{Deserialize, Serialize};
use std::ffi::{c_char, CStr, CString};
use std::sync::mpsc::{channel, Receiver, Sender};
use std::sync::{Arc, Mutex};

pub const NV: usize = 32; // value handle slots
pub const NS: usize = 4; // returned-string slots
pub const NF: usize = 3; // filter handle slots
pub const NB: usize = 3; // borrowed entry pointer slots
pub const NT: usize = 4; // caller threads
/// handle arguments >= BORROW_BASE name a borrow slot (a borrowed entry pointer used as an argument)
pub const BORROW_BASE: i64 = 1000;
/// parser steps allowed to one call on top of 256 per byte of its text arguments (encoders of big
/// handles do not tick; decoders tick a few times per byte)
pub const CALL_FUEL_BASE: u64 = 2_000_000;

/// One call of the history. `h`: handle/slot arguments in the order of the C signature
/// (-1 = null pointer); `n`: numeric arguments (f64 as bits); `s`: C string arguments as hex of
/// their bytes (`None` = null pointer).
#[derive(Serialize, Deserialize, Clone, Debug, Default, PartialEq)]
pub struct Op {
    pub t: u8,
    pub f: String,
    #[serde(default, skip_serializing_if = "Vec::is_empty")]
    pub h: Vec<i64>,
    #[serde(default, skip_serializing_if = "Vec::is_empty")]
    pub n: Vec<u64>,
    #[serde(default, skip_serializing_if = "Vec::is_empty")]
    pub s: Vec<Option<String>>,
}

impl Op {
    pub fn new(t: u8, f: &str) -> Op {
        Op { t, f: f.to_string(), ..Default::default() }
    }
    pub fn h(mut self, v: &[i64]) -> Op {
        self.h = v.to_vec();
        self
    }
    pub fn n(mut self, v: &[u64]) -> Op {
        self.n = v.to_vec();
        self
    }
    pub fn s(mut self, v: &[Option<&[u8]>]) -> Op {
        self.s = v.iter().map(|x| x.map(hex)).collect();
        self
    }
}

#[derive(Clone, Debug)]
pub enum BPath {
    Idx(usize),
    Key(String),
}

#[derive(Clone, Debug)]
pub struct Borrow {
    /// the value slot that owns the memory (an entry of an entry is still owned by the root handle)
    pub container: usize,
    pub epoch: u64,
    /// from the root handle down to the entry
    pub path: Vec<BPath>,
}

#[derive(Clone, Copy, Debug, PartialEq, Eq)]
pub enum Mode {
    /// full reference-model oracle (C17)
    Model,
    /// memory / abort / null-tolerance oracle only (C18); value mismatches are counted, not reported
    Memory,
}

#[derive(Clone, Copy, Debug)]
enum HArg {
    Null,
    Slot(usize),
    Borrowed(usize),
}

pub struct Sim {
    pub exec: bool,
    pub mode: Mode,
    // ---- model
    pub vals: Vec<Option<Value>>,
    pub epochs: Vec<u64>,
    pub strs: Vec<Option<Vec<u8>>>,
    pub filters: Vec<Option<Filter>>,
    pub borrows: Vec<Option<Borrow>>,
    pub pending: Vec<bool>,
    // ---- real
    rvals: Vec<*mut Value>,
    rstrs: Vec<*mut c_char>,
    rfilters: Vec<*mut Filter>,
    rborrows: Vec<*const Value>,
    // ---- log
    pub fp: u64,
    pub violation: Option<(String, String)>,
    pub calls: u64,
    pub skipped: u64,
    pub failures_expected: u64,
    pub null_args: u64,
    pub wrong_kind: u64,
    pub borrow_reads: u64,
    pub cross_thread_takes: u64,
    pub mismatches_ignored: u64,
    pub empty_messages: u64,
    /// the last call was expected to fail (used by the generator)
    pub last_failed: bool,
    /// the message the last failing call of each caller thread leaves on a fresh thread
    pub expected_msg: Vec<Option<Vec<u8>>>,
    /// set by `step` when the call just made failed as the model expects: the simulator replays
    /// it on the probe thread to learn its message
    pub want_probe: bool,
    probing: bool,
    /// Memory mode: a non-memory disagreement was seen, the model is no longer trusted
    diverged: bool,
    /// the pending error of each caller thread comes from a call with a null argument
    pending_null: Vec<bool>,
    pub probes_run: u64,
    pub messages_compared: u64,
}

// SAFETY: the raw pointers are only ever used by the one thread that currently holds the
// simulator's token (the mutex around `Sim`); the values behind them are `Send`.
unsafe impl Send for Sim {}

fn res_i(r: ResultType) -> i32 {
    match r {
        ResultType::ERR => -1,
        ResultType::FALSE => 0,
        ResultType::TRUE => 1,
    }
}

/// Strict identity of a value: the derived `Debug` rendering covers every field (grid version,
/// absent vs empty meta, -0.0, NaN, Ref dis, units, zone).
pub fn ident(v: &Value) -> String {
    format!("{v:?}")
}

fn short(s: &str) -> String {
    if s.len() > 300 {
        let mut e = 300;
        while !s.is_char_boundary(e) {
            e -= 1;
        }
        format!("{}…", &s[..e])
    } else {
        s.to_string()
    }
}

type FnBool = unsafe extern "C" fn(*const Value) -> bool;
type FnF64 = unsafe extern "C" fn(*const Value) -> f64;
type FnU32 = unsafe extern "C" fn(*const Value) -> u32;
type FnUsize = unsafe extern "C" fn(*const Value) -> usize;
type FnStr = unsafe extern "C" fn(*const Value) -> *const c_char;

unsafe extern "C" fn list_len_const(v: *const Value) -> usize {
    haystack_value_get_list_len(v as *mut Value)
}

const IS_FNS: &[(&str, FnBool, fn(&Value) -> bool)] = &[
    ("haystack_value_is_null", haystack_value_is_null, Value::is_null),
    ("haystack_value_is_marker", haystack_value_is_marker, Value::is_marker),
    ("haystack_value_is_na", haystack_value_is_na, Value::is_na),
    ("haystack_value_is_remove", haystack_value_is_remove, Value::is_remove),
    ("haystack_value_is_bool", haystack_value_is_bool, Value::is_bool),
    ("haystack_value_is_number", haystack_value_is_number, Value::is_number),
    ("haystack_value_is_coord", haystack_value_is_coord, Value::is_coord),
    ("haystack_value_is_str", haystack_value_is_str, Value::is_str),
    ("haystack_value_is_ref", haystack_value_is_ref, Value::is_ref),
    ("haystack_value_is_uri", haystack_value_is_uri, Value::is_uri),
    ("haystack_value_is_symbol", haystack_value_is_symbol, Value::is_symbol),
    ("haystack_value_is_xstr", haystack_value_is_xstr, Value::is_xstr),
    ("haystack_value_is_time", haystack_value_is_time, Value::is_time),
    ("haystack_value_is_date", haystack_value_is_date, Value::is_date),
    ("haystack_value_is_datetime", haystack_value_is_datetime, Value::is_datetime),
    ("haystack_value_is_list", haystack_value_is_list, Value::is_list),
    ("haystack_value_is_dict", haystack_value_is_dict, Value::is_dict),
    ("haystack_value_is_grid", haystack_value_is_grid, Value::is_grid),
];

fn m_num(v: &Value) -> Option<f64> {
    match v {
        Value::Number(n) => Some(n.value),
        _ => None,
    }
}
fn m_lat(v: &Value) -> Option<f64> {
    match v {
        Value::Coord(c) => Some(c.lat),
        _ => None,
    }
}
fn m_long(v: &Value) -> Option<f64> {
    match v {
        Value::Coord(c) => Some(c.long),
        _ => None,
    }
}

const F64_FNS: &[(&str, FnF64, fn(&Value) -> Option<f64>)] = &[
    ("haystack_value_get_number_value", haystack_value_get_number_value, m_num),
    ("haystack_value_get_coord_lat", haystack_value_get_coord_lat, m_lat),
    ("haystack_value_get_coord_long", haystack_value_get_coord_long, m_long),
];

fn m_year(v: &Value) -> Option<u32> {
    use chrono::Datelike;
    match v {
        Value::Date(d) => Some(d.year() as u32),
        _ => None,
    }
}
fn m_month(v: &Value) -> Option<u32> {
    use chrono::Datelike;
    match v {
        Value::Date(d) => Some(d.month()),
        _ => None,
    }
}
fn m_day(v: &Value) -> Option<u32> {
    use chrono::Datelike;
    match v {
        Value::Date(d) => Some(d.day()),
        _ => None,
    }
}
fn m_hour(v: &Value) -> Option<u32> {
    use chrono::Timelike;
    match v {
        Value::Time(t) => Some(t.hour()),
        _ => None,
    }
}
fn m_min(v: &Value) -> Option<u32> {
    use chrono::Timelike;
    match v {
        Value::Time(t) => Some(t.minute()),
        _ => None,
    }
}
fn m_sec(v: &Value) -> Option<u32> {
    use chrono::Timelike;
    match v {
        Value::Time(t) => Some(t.second()),
        _ => None,
    }
}
fn m_milli(v: &Value) -> Option<u32> {
    use chrono::Timelike;
    match v {
        Value::Time(t) => Some(t.nanosecond() / 1_000_000),
        _ => None,
    }
}

const U32_FNS: &[(&str, FnU32, fn(&Value) -> Option<u32>)] = &[
    ("haystack_value_get_date_year", haystack_value_get_date_year, m_year),
    ("haystack_value_get_date_month", haystack_value_get_date_month, m_month),
    ("haystack_value_get_date_day", haystack_value_get_date_day, m_day),
    ("haystack_value_get_time_hour", haystack_value_get_time_hour, m_hour),
    ("haystack_value_get_time_minutes", haystack_value_get_time_minutes, m_min),
    ("haystack_value_get_time_seconds", haystack_value_get_time_seconds, m_sec),
    ("haystack_value_get_time_millis", haystack_value_get_time_millis, m_milli),
];

fn m_list_len(v: &Value) -> Option<usize> {
    match v {
        Value::List(l) => Some(l.len()),
        _ => None,
    }
}
fn m_dict_len(v: &Value) -> Option<usize> {
    match v {
        Value::Dict(d) => Some(d.len()),
        _ => None,
    }
}
fn m_grid_len(v: &Value) -> Option<usize> {
    match v {
        Value::Grid(g) => Some(g.rows.len()),
        _ => None,
    }
}
fn m_str_len(v: &Value) -> Option<usize> {
    match v {
        Value::Str(s) => Some(s.value.len()),
        _ => None,
    }
}
fn m_ref_len(v: &Value) -> Option<usize> {
    match v {
        Value::Ref(s) => Some(s.value.len()),
        _ => None,
    }
}
fn m_sym_len(v: &Value) -> Option<usize> {
    match v {
        Value::Symbol(s) => Some(s.value.len()),
        _ => None,
    }
}
fn m_uri_len(v: &Value) -> Option<usize> {
    match v {
        Value::Uri(s) => Some(s.value.len()),
        _ => None,
    }
}

const USIZE_FNS: &[(&str, FnUsize, fn(&Value) -> Option<usize>)] = &[
    ("haystack_value_get_list_len", list_len_const, m_list_len),
    ("haystack_value_get_dict_len", haystack_value_get_dict_len, m_dict_len),
    ("haystack_value_get_grid_len", haystack_value_get_grid_len, m_grid_len),
    ("haystack_value_get_str_len", haystack_value_get_str_len, m_str_len),
    ("haystack_value_get_ref_value_len", haystack_value_get_ref_value_len, m_ref_len),
    ("haystack_value_get_symbol_value_len", haystack_value_get_symbol_value_len, m_sym_len),
    ("haystack_value_get_uri_value_len", haystack_value_get_uri_value_len, m_uri_len),
];

/// `Err(())`: the call fails (wrong kind); `Ok(None)`: a null string that is not an error (no unit,
/// no display name); `Ok(Some(text))`: the text (a text with an interior NUL cannot be a C string
/// and is a failure — decided by the caller).
type StrModel = fn(&Value) -> Result<Option<String>, ()>;

fn m_tz(v: &Value) -> Result<Option<String>, ()> {
    match v {
        Value::DateTime(d) => Ok(Some(d.timezone_short_name())),
        _ => Err(()),
    }
}
fn m_unit(v: &Value) -> Result<Option<String>, ()> {
    match v {
        Value::Number(n) => Ok(n.unit.map(|u| u.symbol().to_string())),
        _ => Err(()),
    }
}
fn m_ref_value(v: &Value) -> Result<Option<String>, ()> {
    match v {
        Value::Ref(r) => Ok(Some(r.value.clone())),
        _ => Err(()),
    }
}
fn m_ref_dis(v: &Value) -> Result<Option<String>, ()> {
    match v {
        Value::Ref(r) => Ok(r.dis.clone()),
        _ => Err(()),
    }
}
fn m_str_value(v: &Value) -> Result<Option<String>, ()> {
    match v {
        Value::Str(r) => Ok(Some(r.value.clone())),
        _ => Err(()),
    }
}
fn m_sym_value(v: &Value) -> Result<Option<String>, ()> {
    match v {
        Value::Symbol(r) => Ok(Some(r.value.clone())),
        _ => Err(()),
    }
}
fn m_uri_value(v: &Value) -> Result<Option<String>, ()> {
    match v {
        Value::Uri(r) => Ok(Some(r.value.clone())),
        _ => Err(()),
    }
}
fn m_xstr_type(v: &Value) -> Result<Option<String>, ()> {
    match v {
        Value::XStr(r) => Ok(Some(r.r#type.clone())),
        _ => Err(()),
    }
}
fn m_xstr_value(v: &Value) -> Result<Option<String>, ()> {
    match v {
        Value::XStr(r) => Ok(Some(r.value.clone())),
        _ => Err(()),
    }
}
fn m_to_zinc(v: &Value) -> Result<Option<String>, ()> {
    to_zinc_string(v).map(Some).map_err(|_| ())
}
fn m_to_json(v: &Value) -> Result<Option<String>, ()> {
    serde_json::to_string(v).map(Some).map_err(|_| ())
}

const STR_FNS: &[(&str, FnStr, StrModel)] = &[
    ("haystack_value_get_datetime_timezone", haystack_value_get_datetime_timezone, m_tz),
    ("haystack_value_get_number_unit", haystack_value_get_number_unit, m_unit),
    ("haystack_value_get_ref_value", haystack_value_get_ref_value, m_ref_value),
    ("haystack_value_get_ref_dis", haystack_value_get_ref_dis, m_ref_dis),
    ("haystack_value_get_str_value", haystack_value_get_str_value, m_str_value),
    ("haystack_value_get_symbol_value", haystack_value_get_symbol_value, m_sym_value),
    ("haystack_value_get_uri_value", haystack_value_get_uri_value, m_uri_value),
    ("haystack_value_get_xstr_type", haystack_value_get_xstr_type, m_xstr_type),
    ("haystack_value_get_xstr_value", haystack_value_get_xstr_value, m_xstr_value),
    ("haystack_value_to_zinc_string", haystack_value_to_zinc_string, m_to_zinc),
    ("haystack_value_to_json_string", haystack_value_to_json_string, m_to_json),
];

/// constructors without pointer arguments that cannot fail
const MAKE0_FNS: &[&str] = &[
    "haystack_value_init",
    "haystack_value_make_marker",
    "haystack_value_make_na",
    "haystack_value_make_remove",
    "haystack_value_make_list",
    "haystack_value_make_dict",
    "haystack_value_make_grid",
];

/// constructors from one C string
const MAKE_S1_FNS: &[&str] = &["haystack_value_make_str", "haystack_value_make_ref", "haystack_value_make_uri", "haystack_value_make_symbol"];

fn cstring_arg(op: &Op, k: usize) -> Option<Option<Vec<u8>>> {
    // outer None: argument missing from the op (malformed) — treated as null pointer
    match op.s.get(k) {
        Some(Some(hexs)) => {
            let mut b = unhex(hexs);
            if let Some(p) = b.iter().position(|x| *x == 0) {
                b.truncate(p); // a C string ends at its first NUL
            }
            Some(Some(b))
        }
        _ => Some(None),
    }
}

impl Sim {
    pub fn new(exec: bool, mode: Mode) -> Sim {
        Sim {
            exec,
            mode,
            vals: (0..NV).map(|_| None).collect(),
            epochs: vec![0; NV],
            strs: (0..NS).map(|_| None).collect(),
            filters: (0..NF).map(|_| None).collect(),
            borrows: (0..NB).map(|_| None).collect(),
            pending: vec![false; NT + 1],
            rvals: vec![std::ptr::null_mut(); NV],
            rstrs: vec![std::ptr::null_mut(); NS],
            rfilters: vec![std::ptr::null_mut(); NF],
            rborrows: vec![std::ptr::null(); NB],
            fp: 0xcbf2_9ce4_8422_2325,
            violation: None,
            calls: 0,
            skipped: 0,
            failures_expected: 0,
            null_args: 0,
            wrong_kind: 0,
            borrow_reads: 0,
            cross_thread_takes: 0,
            mismatches_ignored: 0,
            empty_messages: 0,
            last_failed: false,
            expected_msg: vec![None; NT],
            want_probe: false,
            probing: false,
            diverged: false,
            pending_null: vec![false; NT + 1],
            probes_run: 0,
            messages_compared: 0,
        }
    }

    fn log(&mut self, x: u64) {
        self.fp = mix(&[self.fp, x]);
    }

    /// A disagreement with the reference model. `null_related`: the call had a null argument (also
    /// a C18 matter); otherwise it is a C17 matter only.
    fn mismatch(&mut self, f: &str, what: &str, detail: String, null_related: bool) {
        if self.probing {
            return;
        }
        if self.mode == Mode::Memory && (!null_related || self.diverged) {
            // not a memory matter; the model may have lost track of the real state from here on,
            // so nothing model-based is reported for the rest of this history
            self.mismatches_ignored += 1;
            self.diverged = true;
            return;
        }
        if self.violation.is_none() {
            let prop = if self.mode == Mode::Memory { "C18" } else { "C17" };
            self.violation = Some((format!("{prop} {what} {f}"), detail));
        }
    }

    /// The Rust operation the model relies on panicked while the C function had returned.
    pub fn model_panicked(&mut self, f: &str, msg: &str, loc: &str) {
        self.probing = false;
        self.calls += 1;
        self.mismatch(f, "rust-api-panic", format!("the Rust operation behind {f} panicked at {loc}: {msg} (the C call returned)"), false);
        self.diverged = true;
    }

    fn borrow_valid(&self, b: usize) -> bool {
        match self.borrows.get(b).and_then(|x| x.as_ref()) {
            Some(bw) => self.vals[bw.container].is_some() && self.epochs[bw.container] == bw.epoch && self.borrow_target(bw).is_some(),
            None => false,
        }
    }

    fn borrow_target<'a>(&'a self, bw: &Borrow) -> Option<&'a Value> {
        let mut v = self.vals[bw.container].as_ref()?;
        for seg in &bw.path {
            v = match (v, seg) {
                (Value::List(l), BPath::Idx(i)) => l.get(*i)?,
                (Value::Dict(d), BPath::Key(k)) => d.get(k)?,
                _ => return None,
            };
        }
        Some(v)
    }

    /// Resolves handle argument k. `None`: the op cannot run (slot empty / borrow no longer valid).
    fn harg(&self, op: &Op, k: usize) -> Option<HArg> {
        let idx = *op.h.get(k)?;
        if idx < 0 {
            Some(HArg::Null)
        } else if idx >= BORROW_BASE {
            let b = (idx - BORROW_BASE) as usize;
            if self.borrow_valid(b) {
                Some(HArg::Borrowed(b))
            } else {
                None
            }
        } else if (idx as usize) < NV && self.vals[idx as usize].is_some() {
            Some(HArg::Slot(idx as usize))
        } else {
            None
        }
    }

    /// A mutable (owned) handle argument: borrowed entry pointers are `*const` and never passed here.
    fn harg_owned(&self, op: &Op, k: usize) -> Option<HArg> {
        match self.harg(op, k)? {
            HArg::Borrowed(_) => None,
            a => Some(a),
        }
    }

    fn ptr(&self, a: HArg) -> *mut Value {
        match a {
            HArg::Null => std::ptr::null_mut(),
            HArg::Slot(i) => self.rvals[i],
            HArg::Borrowed(b) => self.rborrows[b] as *mut Value,
        }
    }

    fn shadow(&self, a: HArg) -> Option<Value> {
        match a {
            HArg::Null => None,
            HArg::Slot(i) => self.vals[i].clone(),
            HArg::Borrowed(b) => self.borrows[b].as_ref().and_then(|bw| self.borrow_target(bw)).cloned(),
        }
    }

    fn empty_val_slot(&self, op: &Op, k: usize) -> Option<usize> {
        let idx = *op.h.get(k)?;
        if idx >= 0 && (idx as usize) < NV && self.vals[idx as usize].is_none() {
            Some(idx as usize)
        } else {
            None
        }
    }

    fn empty_str_slot(&self, op: &Op, k: usize) -> Option<usize> {
        let idx = *op.h.get(k)?;
        if idx >= 0 && (idx as usize) < NS && self.strs[idx as usize].is_none() {
            Some(idx as usize)
        } else {
            None
        }
    }

    fn note_args(&mut self, args: &[HArg]) {
        for a in args {
            if matches!(a, HArg::Null) {
                self.null_args += 1;
            }
        }
    }

    fn fail(&mut self, t: usize) {
        self.pending[t] = true;
        self.failures_expected += 1;
        self.last_failed = true;
    }

    /// The result of a constructor-like call: `exp` is what the Rust API yields (None = failure).
    /// SAFETY of the caller: `got` is what the C function returned.
    fn finish_new(&mut self, f: &str, t: usize, slot: usize, exp: Option<Value>, got: Option<Option<Box<Value>>>, null_related: bool) {
        match &exp {
            Some(v) => self.log(fnv1a(ident(v).as_bytes())),
            None => {
                self.log(0xdead);
                self.fail(t);
            }
        }
        if let Some(got) = got {
            match (got, &exp) {
                (Some(b), Some(v)) => {
                    if ident(&b) != ident(v) {
                        self.mismatch(f, "wrong-value", format!("{f} returned {} but the Rust API yields {}", short(&ident(&b)), short(&ident(v))), null_related);
                    }
                    self.rvals[slot] = Box::into_raw(b);
                }
                (Some(b), None) => {
                    self.mismatch(f, "missing-failure", format!("{f} returned a value ({}) where the Rust API fails", short(&ident(&b))), null_related);
                    // keep the protocol: the handle is ours, destroy it now
                    unsafe { haystack_value_destroy(Box::into_raw(b)) };
                }
                (None, Some(v)) => {
                    self.mismatch(f, "spurious-failure", format!("{f} returned null where the Rust API yields {}", short(&ident(v))), null_related);
                    // the model follows the real outcome so that the rest of the history stays meaningful
                    self.pending[t] = true;
                    return;
                }
                (None, None) => {}
            }
        }
        if let Some(v) = exp {
            self.vals[slot] = Some(v);
            self.epochs[slot] += 1;
        }
    }

    fn finish_res(&mut self, f: &str, t: usize, exp: i32, got: Option<ResultType>, null_related: bool) {
        self.log(exp as u64);
        if exp < 0 {
            self.fail(t);
        }
        if let Some(g) = got {
            let g = res_i(g);
            if g != exp {
                let what = if exp < 0 { "missing-failure" } else if g < 0 { "spurious-failure" } else { "wrong-result" };
                self.mismatch(f, what, format!("{f} returned {g} but the model says {exp} (1 TRUE, 0 FALSE, -1 ERR)"), null_related);
                if g < 0 {
                    self.pending[t] = true;
                }
            }
        }
    }

    /// Runs one operation on caller thread `t` (the caller guarantees it executes on that OS thread).
    pub fn step(&mut self, op: &Op) {
        let t = (op.t as usize) % NT;
        let f = op.f.as_str();
        self.last_failed = false;
        self.log(fnv1a(f.as_bytes()));
        let before_calls = self.calls;
        self.step_inner(op, t, f);
        if self.calls == before_calls {
            self.skipped += 1;
            self.log(0x5a5a);
            return;
        }
        if self.last_failed {
            self.pending_null[t] = op.h.contains(&-1) || op.s.contains(&None);
        }
        if self.exec && self.last_failed && self.violation.is_none() {
            self.want_probe = true;
        }
        // every handle the call touched must still equal its shadow (a failing call that mutated,
        // a successful call that mutated too much)
        if self.exec {
            let touched: Vec<usize> = op.h.iter().filter(|i| **i >= 0 && (**i as usize) < NV).map(|i| *i as usize).collect();
            for i in touched {
                self.check_slot(i, f);
            }
        }
    }

    pub fn check_slot(&mut self, i: usize, f: &str) {
        if let Some(shadow) = &self.vals[i] {
            // SAFETY: slot i is live: rvals[i] is the Box pointer handed out by the library
            let real = unsafe { &*self.rvals[i] };
            let (a, b) = (ident(real), ident(shadow));
            if a != b {
                self.mismatch(f, "handle-diverged", format!("after {f}: handle in slot {i} is {} but the Rust model holds {}", short(&a), short(&b)), false);
            }
        }
    }

    pub fn check_all(&mut self, f: &str) {
        if self.exec {
            for i in 0..NV {
                self.check_slot(i, f);
            }
        }
    }

    fn step_inner(&mut self, op: &Op, t: usize, f: &str) {
        let exec = self.exec;
        // ---- uniform shapes ------------------------------------------------------------------
        if let Some((_, cf, mf)) = IS_FNS.iter().find(|x| x.0 == f) {
            let Some(a) = self.harg(op, 0) else { return };
            self.calls += 1;
            self.note_args(&[a]);
            let sh = self.shadow(a);
            // the real call comes first (everywhere): if the Rust operation panics, it is the C
            // function that must be seen aborting, not the model
            let got = if exec { Some(unsafe { cf(self.ptr(a)) }) } else { None };
            let exp = sh.as_ref().map(|v| mf(v));
            self.log(exp.map_or(2, |b| b as u64));
            if exp.is_none() {
                self.fail(t);
            }
            if let Some(got) = got {
                if got != exp.unwrap_or(false) {
                    self.mismatch(f, "wrong-result", format!("{f} returned {got}, the Rust API says {exp:?} for {}", short(&sh.as_ref().map(ident).unwrap_or("null pointer".into()))), exp.is_none());
                }
            }
            return;
        }
        if let Some((_, cf, mf)) = F64_FNS.iter().find(|x| x.0 == f) {
            let Some(a) = self.harg(op, 0) else { return };
            self.calls += 1;
            self.note_args(&[a]);
            let sh = self.shadow(a);
            let got = if exec { Some(unsafe { cf(self.ptr(a)) }) } else { None };
            let exp = sh.as_ref().and_then(|v| mf(v));
            self.log(exp.map_or(1, |x| x.to_bits()));
            if exp.is_none() {
                self.fail(t);
                if sh.is_some() {
                    self.wrong_kind += 1;
                }
            }
            if let Some(got) = got {
                let ok = match exp {
                    Some(x) => got.to_bits() == x.to_bits() || (got.is_nan() && x.is_nan()),
                    None => got.is_nan(),
                };
                if !ok {
                    self.mismatch(f, if exp.is_none() { "missing-failure" } else { "wrong-result" }, format!("{f} returned {got:?}, the model says {exp:?} (None = NaN sentinel + error)"), matches!(a, HArg::Null));
                }
            }
            return;
        }
        if let Some((_, cf, mf)) = U32_FNS.iter().find(|x| x.0 == f) {
            let Some(a) = self.harg(op, 0) else { return };
            self.calls += 1;
            self.note_args(&[a]);
            let sh = self.shadow(a);
            let got = if exec { Some(unsafe { cf(self.ptr(a)) }) } else { None };
            let exp = sh.as_ref().and_then(|v| mf(v));
            self.log(exp.map_or(u64::MAX, |x| x as u64));
            if exp.is_none() {
                self.fail(t);
                if sh.is_some() {
                    self.wrong_kind += 1;
                }
            }
            if let Some(got) = got {
                if got != exp.unwrap_or(u32::MAX) {
                    self.mismatch(f, if exp.is_none() { "missing-failure" } else { "wrong-result" }, format!("{f} returned {got}, the model says {exp:?} (None = u32::MAX sentinel + error)"), matches!(a, HArg::Null));
                }
            }
            return;
        }
        if let Some((_, cf, mf)) = USIZE_FNS.iter().find(|x| x.0 == f) {
            let Some(a) = self.harg(op, 0) else { return };
            self.calls += 1;
            self.note_args(&[a]);
            let sh = self.shadow(a);
            let got = if exec { Some(unsafe { cf(self.ptr(a)) }) } else { None };
            let exp = sh.as_ref().and_then(|v| mf(v));
            self.log(exp.map_or(u64::MAX, |x| x as u64));
            if exp.is_none() {
                self.fail(t);
                if sh.is_some() {
                    self.wrong_kind += 1;
                }
            }
            if let Some(got) = got {
                if got != exp.unwrap_or(usize::MAX) {
                    self.mismatch(f, if exp.is_none() { "missing-failure" } else { "wrong-result" }, format!("{f} returned {got}, the model says {exp:?} (None = usize::MAX sentinel + error)"), matches!(a, HArg::Null));
                }
            }
            return;
        }
        if let Some((_, cf, mf)) = STR_FNS.iter().find(|x| x.0 == f) {
            let Some(a) = self.harg(op, 0) else { return };
            let Some(slot) = self.empty_str_slot(op, 1) else { return };
            self.calls += 1;
            self.note_args(&[a]);
            // the real call comes first: if the Rust operation panics, the C function is the one
            // that must be seen aborting (the model's panic is caught by the caller thread)
            let got_raw = if exec { (unsafe { cf(self.ptr(a)) }) as *mut c_char } else { std::ptr::null_mut() };
            let sh = self.shadow(a);
            // Err: failure; Ok(None): null, no error; Ok(Some): text
            let exp: Result<Option<Vec<u8>>, ()> = match sh.as_ref() {
                None => Err(()),
                Some(v) => match mf(v) {
                    Ok(Some(s)) if s.as_bytes().contains(&0) => Err(()), // not representable as a C string
                    Ok(Some(s)) => Ok(Some(s.into_bytes())),
                    Ok(None) => Ok(None),
                    Err(()) => {
                        self.wrong_kind += 1;
                        Err(())
                    }
                },
            };
            match &exp {
                Ok(Some(b)) => self.log(fnv1a(b)),
                Ok(None) => self.log(7),
                Err(()) => {
                    self.log(8);
                    self.fail(t);
                }
            }
            if exec {
                let got = got_raw;
                let null_rel = matches!(a, HArg::Null);
                if got.is_null() {
                    if let Ok(Some(b)) = &exp {
                        self.mismatch(f, "spurious-failure", format!("{f} returned null, the Rust API yields {:?}", String::from_utf8_lossy(b)), null_rel);
                        self.pending[t] = true;
                        return;
                    }
                } else {
                    // SAFETY: non-null strings returned by the library are NUL-terminated CString buffers
                    let bytes = unsafe { CStr::from_ptr(got) }.to_bytes().to_vec();
                    match &exp {
                        Ok(Some(b)) if *b == bytes => {}
                        Ok(Some(b)) => self.mismatch(f, "wrong-value", format!("{f} returned {:?}, the Rust API yields {:?}", short(&String::from_utf8_lossy(&bytes)), short(&String::from_utf8_lossy(b))), null_rel),
                        _ => self.mismatch(f, "missing-failure", format!("{f} returned {:?} where the model says null ({exp:?})", short(&String::from_utf8_lossy(&bytes))), null_rel),
                    }
                    if self.probing {
                        unsafe { haystack_string_destroy(got) };
                        return;
                    }
                    self.rstrs[slot] = got;
                    self.strs[slot] = Some(bytes);
                    return;
                }
            } else if let Ok(Some(b)) = exp {
                self.strs[slot] = Some(b);
            }
            return;
        }
        if MAKE0_FNS.contains(&f) {
            let Some(slot) = self.empty_val_slot(op, 0) else { return };
            self.calls += 1;
            let got = if exec {
                Some(Some(unsafe {
                    match f {
                        "haystack_value_init" => haystack_value_init(),
                        "haystack_value_make_marker" => haystack_value_make_marker(),
                        "haystack_value_make_na" => haystack_value_make_na(),
                        "haystack_value_make_remove" => haystack_value_make_remove(),
                        "haystack_value_make_list" => haystack_value_make_list(),
                        "haystack_value_make_dict" => haystack_value_make_dict(),
                        _ => haystack_value_make_grid(),
                    }
                }))
            } else {
                None
            };
            let exp = match f {
                "haystack_value_init" => Value::default(),
                "haystack_value_make_marker" => Value::make_marker(),
                "haystack_value_make_na" => Value::make_na(),
                "haystack_value_make_remove" => Value::make_remove(),
                "haystack_value_make_list" => Value::make_list(List::new()),
                "haystack_value_make_dict" => Value::make_dict(Dict::new()),
                _ => Value::make_grid(Grid::make_empty()),
            };
            self.finish_new(f, t, slot, Some(exp), got, false);
            return;
        }
        if MAKE_S1_FNS.contains(&f) {
            let Some(slot) = self.empty_val_slot(op, 0) else { return };
            let s0 = cstring_arg(op, 0).unwrap();
            self.calls += 1;
            if s0.is_none() {
                self.null_args += 1;
            }
            let text = s0.as_ref().and_then(|b| std::str::from_utf8(b).ok());
            let got = if exec {
                let c = s0.as_ref().map(|b| CString::new(b.clone()).expect("no NUL"));
                let p = c.as_ref().map_or(std::ptr::null(), |c| c.as_ptr());
                Some(unsafe {
                    match f {
                        "haystack_value_make_str" => haystack_value_make_str(p),
                        "haystack_value_make_ref" => haystack_value_make_ref(p),
                        "haystack_value_make_uri" => haystack_value_make_uri(p),
                        _ => haystack_value_make_symbol(p),
                    }
                })
            } else {
                None
            };
            let exp = text.map(|s| match f {
                "haystack_value_make_str" => Value::make_str(s),
                "haystack_value_make_ref" => Value::make_ref(s),
                "haystack_value_make_uri" => Value::make_uri(s),
                _ => Value::make_symbol(s),
            });
            self.finish_new(f, t, slot, exp, got, s0.is_none());
            return;
        }
        // ---- individual functions --------------------------------------------------------------
        let n = |k: usize| op.n.get(k).copied().unwrap_or(0);
        match f {
            "haystack_value_destroy" => {
                // protocol: a live handle, exactly once; never null
                let Some(HArg::Slot(i)) = self.harg_owned(op, 0) else { return };
                self.calls += 1;
                if exec {
                    self.check_slot(i, f);
                    unsafe { haystack_value_destroy(self.rvals[i]) };
                    self.rvals[i] = std::ptr::null_mut();
                }
                self.vals[i] = None;
                self.epochs[i] += 1;
            }
            "haystack_string_destroy" => {
                let Some(&idx) = op.h.first() else { return };
                if idx < 0 || idx as usize >= NS || self.strs[idx as usize].is_none() {
                    return;
                }
                self.calls += 1;
                let i = idx as usize;
                if exec {
                    // the string must still hold what was returned (nobody wrote through it)
                    let now = unsafe { CStr::from_ptr(self.rstrs[i]) }.to_bytes().to_vec();
                    if Some(&now) != self.strs[i].as_ref() {
                        self.mismatch(f, "string-changed", format!("a returned string changed before it was destroyed: {:?}", String::from_utf8_lossy(&now)), false);
                    }
                    unsafe { haystack_string_destroy(self.rstrs[i]) };
                    self.rstrs[i] = std::ptr::null_mut();
                }
                self.strs[i] = None;
            }
            "last_error_message" => {
                let Some(slot) = self.empty_str_slot(op, 0) else { return };
                self.calls += 1;
                let exp = self.pending[t];
                self.log(exp as u64);
                self.pending[t] = false;
                if !exec {
                    self.expected_msg[t] = None;
                }
                if !exp && self.pending.iter().any(|p| *p) {
                    self.cross_thread_takes += 1;
                }
                if exec {
                    let got = unsafe { last_error_message() } as *mut c_char;
                    if got.is_null() {
                        if exp {
                            let from_null = self.pending_null[t];
                            self.mismatch(f, "error-not-retrievable", format!("a call on caller thread {t} failed{}, but last_error_message() on that thread returned null", if from_null { " (null pointer argument)" } else { "" }), from_null);
                        }
                    } else {
                        let bytes = unsafe { CStr::from_ptr(got) }.to_bytes().to_vec();
                        if bytes.is_empty() {
                            self.empty_messages += 1;
                        }
                        if exp {
                            if let Some(want) = self.expected_msg[t].take() {
                                self.messages_compared += 1;
                                if want != bytes {
                                    self.mismatch(f, "wrong-error-message", format!("last_error_message() on caller thread {t} returned {:?} but the last failing call on that thread reports {:?} (its message on a fresh thread)", short(&String::from_utf8_lossy(&bytes)), short(&String::from_utf8_lossy(&want))), false);
                                }
                            }
                        }
                        if !exp {
                            self.mismatch(f, "error-without-failure", format!("last_error_message() on caller thread {t} returned {:?} although no call failed on that thread since the last take", short(&String::from_utf8_lossy(&bytes))), false);
                        }
                        self.rstrs[slot] = got;
                        self.strs[slot] = Some(bytes);
                    }
                }
            }
            "haystack_value_make_bool" => {
                let Some(slot) = self.empty_val_slot(op, 0) else { return };
                self.calls += 1;
                let b = n(0) & 1 == 1;
                let got = if exec { Some(Some(haystack_value_make_bool(b))) } else { None };
                self.finish_new(f, t, slot, Some(Value::make_bool(b)), got, false);
            }
            "haystack_value_make_number" => {
                let Some(slot) = self.empty_val_slot(op, 0) else { return };
                self.calls += 1;
                let x = f64::from_bits(n(0));
                let got = if exec { Some(Some(haystack_value_make_number(x))) } else { None };
                self.finish_new(f, t, slot, Some(Value::make_number(x)), got, false);
            }
            "haystack_value_make_coord" => {
                let Some(slot) = self.empty_val_slot(op, 0) else { return };
                self.calls += 1;
                let (a, b) = (f64::from_bits(n(0)), f64::from_bits(n(1)));
                let got = if exec { Some(Some(haystack_value_make_coord(a, b))) } else { None };
                self.finish_new(f, t, slot, Some(Value::make_coord_from(a, b)), got, false);
            }
            "haystack_value_make_number_with_unit" => {
                let Some(slot) = self.empty_val_slot(op, 0) else { return };
                let s0 = cstring_arg(op, 0).unwrap();
                self.calls += 1;
                if s0.is_none() {
                    self.null_args += 1;
                }
                let x = f64::from_bits(n(0));
                let got = if exec {
                    let c = s0.as_ref().map(|b| CString::new(b.clone()).expect("no NUL"));
                    Some(unsafe { haystack_value_make_number_with_unit(x, c.as_ref().map_or(std::ptr::null(), |c| c.as_ptr())) })
                } else {
                    None
                };
                let exp = s0.as_ref().and_then(|b| std::str::from_utf8(b).ok()).and_then(get_unit).map(|u| Value::make_number_unit(x, u));
                self.finish_new(f, t, slot, exp, got, s0.is_none());
            }
            "haystack_value_make_ref_with_dis" | "haystack_value_make_xstr" => {
                let Some(slot) = self.empty_val_slot(op, 0) else { return };
                let (s0, s1) = (cstring_arg(op, 0).unwrap(), cstring_arg(op, 1).unwrap());
                self.calls += 1;
                let null_rel = s0.is_none() || s1.is_none();
                if null_rel {
                    self.null_args += 1;
                }
                let t0 = s0.as_ref().and_then(|b| std::str::from_utf8(b).ok());
                let t1 = s1.as_ref().and_then(|b| std::str::from_utf8(b).ok());
                let got = if exec {
                    let c0 = s0.as_ref().map(|b| CString::new(b.clone()).expect("no NUL"));
                    let c1 = s1.as_ref().map(|b| CString::new(b.clone()).expect("no NUL"));
                    let (p0, p1) = (c0.as_ref().map_or(std::ptr::null(), |c| c.as_ptr()), c1.as_ref().map_or(std::ptr::null(), |c| c.as_ptr()));
                    Some(unsafe {
                        if f == "haystack_value_make_xstr" {
                            haystack_value_make_xstr(p0, p1)
                        } else {
                            haystack_value_make_ref_with_dis(p0, p1)
                        }
                    })
                } else {
                    None
                };
                let exp = match (t0, t1) {
                    (Some(a), Some(b)) => Some(if f == "haystack_value_make_xstr" { Value::make_xstr_from(a, b) } else { Value::make_ref_with_dis(a, b) }),
                    _ => None,
                };
                self.finish_new(f, t, slot, exp, got, null_rel);
            }
            "haystack_value_make_time" | "haystack_value_make_time_millis" => {
                let Some(slot) = self.empty_val_slot(op, 0) else { return };
                self.calls += 1;
                let (h, m, s, ms) = (n(0) as u32, n(1) as u32, n(2) as u32, n(3) as u32);
                let millis = f == "haystack_value_make_time_millis";
                let got = if exec { Some(if millis { haystack_value_make_time_millis(h, m, s, ms) } else { haystack_value_make_time(h, m, s) }) } else { None };
                let exp = if millis { Time::from_hms_milli(h, m, s, ms) } else { Time::from_hms(h, m, s) }.ok().map(Value::Time);
                self.finish_new(f, t, slot, exp, got, false);
            }
            "haystack_value_make_date" => {
                let Some(slot) = self.empty_val_slot(op, 0) else { return };
                self.calls += 1;
                let (y, m, d) = (n(0) as i64 as i32, n(1) as u32, n(2) as u32);
                let got = if exec { Some(haystack_value_make_date(y, m, d)) } else { None };
                let exp = Date::from_ymd(y, m, d).ok().map(Value::Date);
                self.finish_new(f, t, slot, exp, got, false);
            }
            "haystack_value_make_utc_datetime" | "haystack_value_make_tz_datetime" => {
                let Some(slot) = self.empty_val_slot(op, 0) else { return };
                let (Some(a), Some(b)) = (self.harg(op, 1), self.harg(op, 2)) else { return };
                let tz = f == "haystack_value_make_tz_datetime";
                let s0 = if tz { cstring_arg(op, 0).unwrap() } else { Some(Vec::new()) };
                self.calls += 1;
                self.note_args(&[a, b]);
                let null_rel = matches!(a, HArg::Null) || matches!(b, HArg::Null) || s0.is_none();
                if s0.is_none() {
                    self.null_args += 1;
                }
                let got = if exec {
                    let c = s0.as_ref().map(|z| CString::new(z.clone()).expect("no NUL"));
                    Some(unsafe {
                        if tz {
                            haystack_value_make_tz_datetime(self.ptr(a), self.ptr(b), c.as_ref().map_or(std::ptr::null(), |c| c.as_ptr()))
                        } else {
                            haystack_value_make_utc_datetime(self.ptr(a), self.ptr(b))
                        }
                    })
                } else {
                    None
                };
                let utc = match (self.shadow(a), self.shadow(b)) {
                    (Some(Value::Date(d)), Some(Value::Time(ti))) => Some(Utc.from_utc_datetime(&NaiveDateTime::new(*d, *ti))),
                    (x, y) => {
                        if x.is_some() && y.is_some() {
                            self.wrong_kind += 1;
                        }
                        None
                    }
                };
                let exp = if tz {
                    match (utc, s0.as_ref().and_then(|z| std::str::from_utf8(z).ok())) {
                        (Some(u), Some(z)) => make_date_time_with_tz(&u.with_timezone(&Utc.fix()), z).ok().map(|dt| Value::DateTime(dt.into())),
                        _ => None,
                    }
                } else {
                    utc.map(|u| Value::make_datetime(u.into()))
                };
                self.finish_new(f, t, slot, exp, got, null_rel);
            }
            "haystack_value_number_has_unit" => {
                let Some(a) = self.harg(op, 0) else { return };
                self.calls += 1;
                self.note_args(&[a]);
                let got = if exec { Some(unsafe { haystack_value_number_has_unit(self.ptr(a)) }) } else { None };
                let exp = match self.shadow(a) {
                    Some(Value::Number(x)) => x.unit.is_some() as i32,
                    other => {
                        if other.is_some() {
                            self.wrong_kind += 1;
                        }
                        -1
                    }
                };
                self.finish_res(f, t, exp, got, matches!(a, HArg::Null));
            }
            "haystack_value_get_datetime_date" | "haystack_value_get_datetime_time" => {
                let (Some(a), Some(r)) = (self.harg(op, 0), self.harg_owned(op, 1)) else { return };
                self.calls += 1;
                self.note_args(&[a, r]);
                let utc = n(0) & 1 == 1;
                let date = f == "haystack_value_get_datetime_date";
                let got = if exec {
                    Some(unsafe {
                        if date {
                            haystack_value_get_datetime_date(self.ptr(a), utc, self.ptr(r))
                        } else {
                            haystack_value_get_datetime_time(self.ptr(a), utc, self.ptr(r))
                        }
                    })
                } else {
                    None
                };
                let new = match (self.shadow(a), r) {
                    (Some(Value::DateTime(dt)), HArg::Slot(_)) => {
                        let nd = if utc { dt.naive_utc() } else { dt.naive_local() };
                        Some(if date { Value::from(Date::from(nd.date())) } else { Value::from(Time::from(nd.time())) })
                    }
                    (x, _) => {
                        if x.is_some() && !matches!(x, Some(Value::DateTime(_))) {
                            self.wrong_kind += 1;
                        }
                        None
                    }
                };
                self.finish_res(f, t, if new.is_some() { 1 } else { -1 }, got, matches!(a, HArg::Null) || matches!(r, HArg::Null));
                if let (Some(v), HArg::Slot(ri)) = (new, r) {
                    self.vals[ri] = Some(v);
                    self.epochs[ri] += 1;
                }
            }
            "haystack_value_push_list_entry" => {
                let (Some(l), Some(e)) = (self.harg_owned(op, 0), self.harg(op, 1)) else { return };
                self.calls += 1;
                self.note_args(&[l, e]);
                let entry = self.shadow(e);
                let ok = matches!((&l, self.shadow(l), &entry), (HArg::Slot(_), Some(Value::List(_)), Some(_)));
                if !ok && matches!(l, HArg::Slot(_)) && entry.is_some() {
                    self.wrong_kind += 1;
                }
                let got = if exec { Some(unsafe { haystack_value_push_list_entry(self.ptr(l), self.ptr(e)) }) } else { None };
                self.finish_res(f, t, if ok { 1 } else { -1 }, got, matches!(l, HArg::Null) || matches!(e, HArg::Null));
                if let (true, HArg::Slot(li)) = (ok, l) {
                    if let Some(Value::List(list)) = self.vals[li].as_mut() {
                        list.push(entry.unwrap());
                    }
                    self.epochs[li] += 1;
                }
            }
            "haystack_value_set_list_entry_at" => {
                let (Some(l), Some(e)) = (self.harg_owned(op, 0), self.harg(op, 1)) else { return };
                self.calls += 1;
                self.note_args(&[l, e]);
                let idx = n(0) as usize;
                let entry = self.shadow(e);
                let ok = match (self.shadow(l), &entry) {
                    (Some(Value::List(list)), Some(_)) => idx < list.len(),
                    _ => false,
                };
                let got = if exec { Some(unsafe { haystack_value_set_list_entry_at(self.ptr(l), idx, self.ptr(e)) }) } else { None };
                self.finish_res(f, t, if ok { 1 } else { -1 }, got, matches!(l, HArg::Null) || matches!(e, HArg::Null));
                if let (true, HArg::Slot(li)) = (ok, l) {
                    if let Some(Value::List(list)) = self.vals[li].as_mut() {
                        list[idx] = entry.unwrap();
                    }
                    self.epochs[li] += 1;
                }
            }
            "haystack_value_remove_list_entry_at" => {
                let Some(l) = self.harg_owned(op, 0) else { return };
                self.calls += 1;
                self.note_args(&[l]);
                let idx = n(0) as usize;
                let ok = matches!(self.shadow(l), Some(Value::List(list)) if idx < list.len());
                let got = if exec { Some(unsafe { haystack_value_remove_list_entry_at(self.ptr(l), idx) }) } else { None };
                self.finish_res(f, t, if ok { 1 } else { -1 }, got, matches!(l, HArg::Null));
                if let (true, HArg::Slot(li)) = (ok, l) {
                    if let Some(Value::List(list)) = self.vals[li].as_mut() {
                        list.remove(idx);
                    }
                    self.epochs[li] += 1;
                }
            }
            "haystack_value_get_list_entry_at" | "haystack_value_get_dict_entry" => {
                // h: [container, borrow slot (-1 = null result pointer)]
                let Some(c) = self.harg(op, 0) else { return };
                let Some(&bs) = op.h.get(1) else { return };
                if bs >= NB as i64 {
                    return;
                }
                let is_list = f == "haystack_value_get_list_entry_at";
                let key = if is_list { Some(Vec::new()) } else { cstring_arg(op, 0).unwrap() };
                self.calls += 1;
                self.note_args(&[c]);
                let null_rel = matches!(c, HArg::Null) || bs < 0 || key.is_none();
                if bs < 0 || key.is_none() {
                    self.null_args += 1;
                }
                let idx = n(0) as usize;
                let key_str = key.as_ref().and_then(|k| std::str::from_utf8(k).ok()).map(|s| s.to_string());
                // model: 1 = entry found (+ pointer), 0 = key absent (dict only), -1 = failure
                let (exp, target, path) = match (self.shadow(c), is_list) {
                    (Some(Value::List(list)), true) => match list.get(idx) {
                        Some(e) if bs >= 0 => (1, Some(e.clone()), Some(BPath::Idx(idx))),
                        _ => (-1, None, None),
                    },
                    (Some(Value::Dict(d)), false) if bs >= 0 => match &key_str {
                        Some(k) => match d.get(k) {
                            Some(e) => (1, Some(e.clone()), Some(BPath::Key(k.clone()))),
                            None => (0, None, None),
                        },
                        None => (-1, None, None),
                    },
                    (x, _) => {
                        if x.is_some() && bs >= 0 && key_str.is_some() {
                            self.wrong_kind += 1;
                        }
                        (-1, None, None)
                    }
                };
                let mut out: *const Value = std::ptr::null();
                let got = if exec {
                    let outp: *mut *const Value = if bs < 0 { std::ptr::null_mut() } else { &mut out };
                    Some(unsafe {
                        if is_list {
                            haystack_value_get_list_entry_at(self.ptr(c), idx, outp)
                        } else {
                            let ck = key.as_ref().map(|k| CString::new(k.clone()).expect("no NUL"));
                            haystack_value_get_dict_entry(self.ptr(c), ck.as_ref().map_or(std::ptr::null(), |c| c.as_ptr()), outp)
                        }
                    })
                } else {
                    None
                };
                let got_true = got.as_ref().map(|g| *g == ResultType::TRUE);
                self.finish_res(f, t, exp, got, null_rel);
                if exp == 1 {
                    // (root slot, path to the container argument)
                    let container: Option<(usize, Vec<BPath>)> = match c {
                        HArg::Slot(i) => Some((i, Vec::new())),
                        HArg::Borrowed(b0) => self.borrows[b0].as_ref().map(|bw| (bw.container, bw.path.clone())),
                        HArg::Null => None,
                    };
                    if exec && got_true == Some(true) {
                        if out.is_null() {
                            self.mismatch(f, "wrong-value", format!("{f} returned TRUE but left the result pointer null"), false);
                        } else {
                            // SAFETY: the container is alive and unmodified since the call
                            let real = ident(unsafe { &*out });
                            let want = ident(target.as_ref().unwrap());
                            if real != want {
                                self.mismatch(f, "wrong-value", format!("{f} handed out an entry pointer to {} but the Rust API yields {}", short(&real), short(&want)), false);
                            }
                        }
                    }
                    if let Some((ci, mut full)) = container {
                        let b = bs as usize;
                        if !exec || (got_true == Some(true) && !out.is_null()) {
                            full.push(path.unwrap());
                            self.borrows[b] = Some(Borrow { container: ci, epoch: self.epochs[ci], path: full });
                            self.rborrows[b] = out;
                        }
                    }
                }
            }
            "fail_storm" => {
                // pseudo operation: n failing calls in a row on this thread, none of whose
                // messages is fetched (the next ordinary failing call of the history sets the
                // message the model expects)
                let n = n(0).min(2_000_000);
                self.calls += 1;
                self.log(n);
                self.fail(t);
                if exec {
                    for i in 0..n {
                        if i % 1000 == 0 {
                            // the step allowance is per call, not per storm
                            libhaystack::verif_hooks::arm_abort(CALL_FUEL_BASE);
                        }
                        unsafe {
                            if i % 2 == 0 {
                                let r = haystack_value_make_str(std::ptr::null());
                                debug_assert!(r.is_none());
                            } else {
                                let r = haystack_value_from_zinc_string(b"@@ ??\0".as_ptr() as *const c_char);
                                debug_assert!(r.is_none());
                            }
                        }
                    }
                }
            }
            "borrow_read" => {
                // pseudo operation: the caller dereferences a borrowed entry pointer while its
                // container is alive and unmodified
                let Some(&b) = op.h.first() else { return };
                if b < 0 || b as usize >= NB || !self.borrow_valid(b as usize) {
                    return;
                }
                self.calls += 1;
                self.borrow_reads += 1;
                let bw = self.borrows[b as usize].clone().unwrap();
                let want = ident(self.borrow_target(&bw).unwrap());
                self.log(fnv1a(want.as_bytes()));
                if exec {
                    let real = ident(unsafe { &*self.rborrows[b as usize] });
                    if real != want {
                        self.mismatch(f, "borrow-diverged", format!("a borrowed entry pointer (container slot {} alive and unmodified) reads {} but the entry is {}", bw.container, short(&real), short(&want)), false);
                    }
                }
            }
            "haystack_value_get_dict_keys" => {
                let (Some(d), Some(r)) = (self.harg(op, 0), self.harg_owned(op, 1)) else { return };
                self.calls += 1;
                self.note_args(&[d, r]);
                let new = match (self.shadow(d), r) {
                    (Some(Value::Dict(dict)), HArg::Slot(_)) => Some(Value::make_list(dict.keys().map(|k| Value::make_str(k)).collect::<List>())),
                    (x, _) => {
                        if x.is_some() && !matches!(x, Some(Value::Dict(_))) {
                            self.wrong_kind += 1;
                        }
                        None
                    }
                };
                let got = if exec { Some(unsafe { haystack_value_get_dict_keys(self.ptr(d), self.ptr(r)) }) } else { None };
                self.finish_res(f, t, if new.is_some() { 1 } else { -1 }, got, matches!(d, HArg::Null) || matches!(r, HArg::Null));
                if let (Some(v), HArg::Slot(ri)) = (new, r) {
                    self.vals[ri] = Some(v);
                    self.epochs[ri] += 1;
                }
            }
            "haystack_value_insert_dict_entry" => {
                let (Some(d), Some(e)) = (self.harg_owned(op, 0), self.harg(op, 1)) else { return };
                let key = cstring_arg(op, 0).unwrap();
                self.calls += 1;
                self.note_args(&[d, e]);
                if key.is_none() {
                    self.null_args += 1;
                }
                let entry = self.shadow(e);
                let key_str = key.as_ref().and_then(|k| std::str::from_utf8(k).ok()).map(|s| s.to_string());
                let ok = matches!((self.shadow(d), &entry, &key_str), (Some(Value::Dict(_)), Some(_), Some(_)));
                let got = if exec {
                    let ck = key.as_ref().map(|k| CString::new(k.clone()).expect("no NUL"));
                    Some(unsafe { haystack_value_insert_dict_entry(self.ptr(d), ck.as_ref().map_or(std::ptr::null(), |c| c.as_ptr()), self.ptr(e)) })
                } else {
                    None
                };
                self.finish_res(f, t, if ok { 1 } else { -1 }, got, matches!(d, HArg::Null) || matches!(e, HArg::Null) || key.is_none());
                if let (true, HArg::Slot(di)) = (ok, d) {
                    if let Some(Value::Dict(dict)) = self.vals[di].as_mut() {
                        dict.insert(key_str.unwrap(), entry.unwrap());
                    }
                    self.epochs[di] += 1;
                }
            }
            "haystack_value_remove_dict_entry" => {
                let Some(d) = self.harg_owned(op, 0) else { return };
                let key = cstring_arg(op, 0).unwrap();
                self.calls += 1;
                self.note_args(&[d]);
                if key.is_none() {
                    self.null_args += 1;
                }
                let key_str = key.as_ref().and_then(|k| std::str::from_utf8(k).ok()).map(|s| s.to_string());
                let ok = matches!((self.shadow(d), &key_str), (Some(Value::Dict(_)), Some(_)));
                let got = if exec {
                    let ck = key.as_ref().map(|k| CString::new(k.clone()).expect("no NUL"));
                    Some(unsafe { haystack_value_remove_dict_entry(self.ptr(d), ck.as_ref().map_or(std::ptr::null(), |c| c.as_ptr())) })
                } else {
                    None
                };
                self.finish_res(f, t, if ok { 1 } else { -1 }, got, matches!(d, HArg::Null) || key.is_none());
                if let (true, HArg::Slot(di)) = (ok, d) {
                    if let Some(Value::Dict(dict)) = self.vals[di].as_mut() {
                        dict.remove(key_str.as_ref().unwrap());
                    }
                    self.epochs[di] += 1;
                }
            }
            "haystack_value_make_grid_from_rows" | "haystack_value_make_grid_from_rows_with_meta" => {
                let Some(slot) = self.empty_val_slot(op, 0) else { return };
                let Some(rows) = self.harg(op, 1) else { return };
                let with_meta = f.ends_with("_with_meta");
                let meta = if with_meta { self.harg(op, 2) } else { Some(HArg::Null) };
                let Some(meta) = meta else { return };
                self.calls += 1;
                self.note_args(&[rows]);
                if with_meta {
                    self.note_args(&[meta]);
                }
                let base: Option<Vec<Dict>> = match self.shadow(rows) {
                    Some(Value::List(list)) => {
                        let dicts: Vec<Dict> = list.iter().filter_map(|v| if let Value::Dict(d) = v { Some(d.clone()) } else { None }).collect();
                        if dicts.is_empty() {
                            None
                        } else {
                            Some(dicts)
                        }
                    }
                    x => {
                        if x.is_some() {
                            self.wrong_kind += 1;
                        }
                        None
                    }
                };
                let got = if exec {
                    Some(unsafe {
                        if with_meta {
                            haystack_value_make_grid_from_rows_with_meta(self.ptr(rows), self.ptr(meta))
                        } else {
                            haystack_value_make_grid_from_rows(self.ptr(rows))
                        }
                    })
                } else {
                    None
                };
                let exp = if with_meta {
                    match (base, self.shadow(meta)) {
                        (Some(dicts), Some(Value::Dict(m))) => Some(Value::make_grid(Grid::make_from_dicts_with_meta(dicts, m))),
                        _ => None,
                    }
                } else {
                    base.map(Value::make_grid_from_dicts)
                };
                self.finish_new(f, t, slot, exp, got, matches!(rows, HArg::Null) || (with_meta && matches!(meta, HArg::Null)));
            }
            "haystack_value_get_grid_row_at" => {
                let (Some(g), Some(r)) = (self.harg(op, 0), self.harg_owned(op, 1)) else { return };
                self.calls += 1;
                self.note_args(&[g, r]);
                let idx = n(0) as usize;
                let new = match (self.shadow(g), r) {
                    (Some(Value::Grid(grid)), HArg::Slot(_)) => grid.rows.get(idx).map(|d| Value::Dict(d.clone())),
                    (x, _) => {
                        if x.is_some() && !matches!(x, Some(Value::Grid(_))) {
                            self.wrong_kind += 1;
                        }
                        None
                    }
                };
                let got = if exec { Some(unsafe { haystack_value_get_grid_row_at(self.ptr(g), idx, self.ptr(r)) }) } else { None };
                self.finish_res(f, t, if new.is_some() { 1 } else { -1 }, got, matches!(g, HArg::Null) || matches!(r, HArg::Null));
                if let (Some(v), HArg::Slot(ri)) = (new, r) {
                    self.vals[ri] = Some(v);
                    self.epochs[ri] += 1;
                }
            }
            "haystack_value_from_zinc_string" | "haystack_value_from_json_string" => {
                let Some(slot) = self.empty_val_slot(op, 0) else { return };
                let s0 = cstring_arg(op, 0).unwrap();
                self.calls += 1;
                if s0.is_none() {
                    self.null_args += 1;
                }
                let zinc = f == "haystack_value_from_zinc_string";
                let text = s0.as_ref().and_then(|b| std::str::from_utf8(b).ok());
                let got = if exec {
                    let c = s0.as_ref().map(|b| CString::new(b.clone()).expect("no NUL"));
                    let p = c.as_ref().map_or(std::ptr::null(), |c| c.as_ptr());
                    Some(unsafe {
                        if zinc {
                            haystack_value_from_zinc_string(p)
                        } else {
                            haystack_value_from_json_string(p)
                        }
                    })
                } else {
                    None
                };
                let exp = text.and_then(|s| if zinc { zinc_from_str(s).ok() } else { serde_json::from_str::<Value>(s).ok() });
                self.finish_new(f, t, slot, exp, got, s0.is_none());
            }
            "haystack_filter_parse" => {
                let Some(&fs) = op.h.first() else { return };
                if fs < 0 || fs as usize >= NF || self.filters[fs as usize].is_some() {
                    return;
                }
                let fs = fs as usize;
                let s0 = cstring_arg(op, 0).unwrap();
                self.calls += 1;
                if s0.is_none() {
                    self.null_args += 1;
                }
                let got_first = if exec {
                    let c = s0.as_ref().map(|b| CString::new(b.clone()).expect("no NUL"));
                    Some(unsafe { haystack_filter_parse(c.as_ref().map_or(std::ptr::null(), |c| c.as_ptr())) })
                } else {
                    None
                };
                let exp = s0.as_ref().and_then(|b| std::str::from_utf8(b).ok()).and_then(|s| Filter::try_from(s).ok());
                match &exp {
                    Some(x) => self.log(fnv1a(x.to_string().as_bytes())),
                    None => {
                        self.log(0xdead);
                        self.fail(t);
                    }
                }
                if let Some(got) = got_first {
                    match (got, &exp) {
                        (Some(b), Some(x)) => {
                            if b.to_string() != x.to_string() || format!("{b:?}") != format!("{x:?}") {
                                self.mismatch(f, "wrong-value", format!("{f} returned `{b}` but Filter::try_from yields `{x}`"), false);
                            }
                            self.rfilters[fs] = Box::into_raw(b);
                        }
                        (Some(b), None) => {
                            self.mismatch(f, "missing-failure", format!("{f} returned `{b}` where Filter::try_from fails"), s0.is_none());
                            drop(b);
                        }
                        (None, Some(x)) => {
                            self.mismatch(f, "spurious-failure", format!("{f} returned null where Filter::try_from yields `{x}`"), false);
                            self.pending[t] = true;
                            return;
                        }
                        (None, None) => {}
                    }
                }
                if let Some(x) = exp {
                    self.filters[fs] = Some(x);
                }
            }
            "haystack_filter_match_dict" | "haystack_filter_first_match_in_grid" | "haystack_filter_match_all_grid" => {
                // h: [filter slot (-1 null), subject, result (not for match_dict)]
                let Some(&fs) = op.h.first() else { return };
                if fs >= NF as i64 || (fs >= 0 && self.filters[fs as usize].is_none()) {
                    return;
                }
                let Some(subj) = self.harg(op, 1) else { return };
                let needs_result = f != "haystack_filter_match_dict";
                let res = if needs_result { self.harg_owned(op, 2) } else { Some(HArg::Null) };
                let Some(res) = res else { return };
                self.calls += 1;
                self.note_args(&[subj]);
                if fs < 0 {
                    self.null_args += 1;
                }
                if needs_result {
                    self.note_args(&[res]);
                }
                let null_rel = fs < 0 || matches!(subj, HArg::Null) || (needs_result && matches!(res, HArg::Null));
                let got = if exec {
                    let fp: *const Filter = if fs < 0 { std::ptr::null() } else { self.rfilters[fs as usize] };
                    Some(unsafe {
                        match f {
                            "haystack_filter_match_dict" => haystack_filter_match_dict(fp, self.ptr(subj)),
                            "haystack_filter_first_match_in_grid" => haystack_filter_first_match_in_grid(fp, self.ptr(subj), self.ptr(res)),
                            _ => haystack_filter_match_all_grid(fp, self.ptr(subj), self.ptr(res)),
                        }
                    })
                } else {
                    None
                };
                let filter = if fs >= 0 { self.filters[fs as usize].clone() } else { None };
                let mut new: Option<Value> = None;
                let exp: i32 = match (f, &filter, self.shadow(subj)) {
                    ("haystack_filter_match_dict", Some(flt), Some(Value::Dict(d))) => d.filter(flt) as i32,
                    // the grid functions are modelled through the table they wrap: a grid's matches are
                    // the rows that match as dicts, in order (not through Grid's own filter methods)
                    ("haystack_filter_first_match_in_grid", Some(flt), Some(Value::Grid(g))) if matches!(res, HArg::Slot(_)) => match g.rows.iter().find(|d| d.filter(flt)) {
                        Some(d) => {
                            new = Some(Value::Dict(d.clone()));
                            1
                        }
                        None => 0,
                    },
                    ("haystack_filter_match_all_grid", Some(flt), Some(Value::Grid(g))) if matches!(res, HArg::Slot(_)) => {
                        let rows: Vec<Dict> = g.rows.iter().filter(|d| d.filter(flt)).cloned().collect();
                        let out = match &g.meta {
                            Some(m) => Grid::make_from_dicts_with_meta(rows, m.clone()),
                            None => Grid::make_from_dicts(rows),
                        };
                        let r = !out.is_empty() as i32;
                        new = Some(Value::Grid(out));
                        r
                    }
                    (_, _, x) => {
                        if x.is_some() && filter.is_some() {
                            self.wrong_kind += 1;
                        }
                        -1
                    }
                };
                self.finish_res(f, t, exp, got, null_rel);
                if let (Some(v), HArg::Slot(ri)) = (new, res) {
                    self.vals[ri] = Some(v);
                    self.epochs[ri] += 1;
                }
            }
            _ => {}
        }
    }

    /// Replays a call that failed (so it changed nothing) on the probe thread, whose error slot is
    /// empty, and records the message it leaves there: that is the text a later
    /// `last_error_message()` on the failing thread has to return. Must run on the probe OS thread.
    pub fn probe(&mut self, op: &Op) {
        let t = (op.t as usize) % NT;
        let saved = (self.fp, self.calls, self.skipped, self.failures_expected, self.null_args, self.wrong_kind, self.last_failed, self.pending.clone());
        self.probing = true;
        self.step_inner(op, NT, &op.f);
        self.probing = false;
        (self.fp, self.calls, self.skipped, self.failures_expected, self.null_args, self.wrong_kind, self.last_failed) = (saved.0, saved.1, saved.2, saved.3, saved.4, saved.5, saved.6);
        self.pending = saved.7;
        self.probes_run += 1;
        let m = unsafe { last_error_message() } as *mut c_char;
        if m.is_null() {
            self.expected_msg[t] = None;
        } else {
            self.expected_msg[t] = Some(unsafe { CStr::from_ptr(m) }.to_bytes().to_vec());
            unsafe { haystack_string_destroy(m) };
        }
    }

    /// End of a history: the caller honours the ownership protocol — everything still live is
    /// destroyed exactly once (filters have no C destroy function: freed on the Rust side).
    pub fn teardown(&mut self) {
        self.check_all("teardown");
        for i in 0..NV {
            if self.vals[i].take().is_some() && self.exec {
                unsafe { haystack_value_destroy(self.rvals[i]) };
                self.rvals[i] = std::ptr::null_mut();
            }
        }
        for i in 0..NS {
            if self.strs[i].take().is_some() && self.exec {
                unsafe { haystack_string_destroy(self.rstrs[i]) };
                self.rstrs[i] = std::ptr::null_mut();
            }
        }
        for i in 0..NF {
            if self.filters[i].take().is_some() && self.exec {
                drop(unsafe { Box::from_raw(self.rfilters[i]) });
                self.rfilters[i] = std::ptr::null_mut();
            }
        }
        for b in self.borrows.iter_mut() {
            *b = None;
        }
    }
}

// -------------------------------------------------------------------------------------------------
// simulated caller threads: one token, handed to one thread per operation

enum Job {
    Step(usize),
    Probe(usize),
    /// take (and free) whatever error is still pending on this thread, then leave
    Exit,
}

struct Caller {
    tx: Sender<Job>,
    handle: std::thread::JoinHandle<()>,
}

fn spawn_caller(sim: Arc<Mutex<Sim>>, ops: Arc<Vec<Op>>, ack: Sender<()>, announce: bool) -> Caller {
    let (tx, rx): (Sender<Job>, Receiver<Job>) = channel();
    let handle = std::thread::Builder::new()
        .stack_size(1 << 20)
        .spawn(move || {
            while let Ok(job) = rx.recv() {
                match job {
                    Job::Step(i) => {
                        let mut s = sim.lock().unwrap_or_else(|e| e.into_inner());
                        if announce {
                            eprintln!("ANNOUNCE {} {}", i, ops[i].f);
                        }
                        // a panic here comes from the Rust API used by the model (the C call of
                        // the same operation has already returned, or it would have aborted)
                        // bounded liveness of every call: the step counter of the decoders aborts
                        // the process (VERIF-FUEL-EXHAUSTED) when one call makes more parser steps
                        // than any text of this size can need
                        let text_len: usize = ops[i].s.iter().flatten().map(|h| h.len() / 2).sum();
                        libhaystack::verif_hooks::arm_abort(CALL_FUEL_BASE + 256 * text_len as u64);
                        let r = std::panic::catch_unwind(std::panic::AssertUnwindSafe(|| s.step(&ops[i])));
                        libhaystack::verif_hooks::disarm();
                        if r.is_err() {
                            let (msg, loc) = take_last_panic().unwrap_or_default();
                            s.model_panicked(&ops[i].f, &msg, &loc);
                        }
                        drop(s);
                        let _ = ack.send(());
                    }
                    Job::Probe(i) => {
                        let mut s = sim.lock().unwrap_or_else(|e| e.into_inner());
                        if announce {
                            eprintln!("ANNOUNCE {} last_error_message(after:{})", i, ops[i].f);
                        }
                        s.probe(&ops[i]);
                        drop(s);
                        let _ = ack.send(());
                    }
                    Job::Exit => {
                        // an untaken error stays in the thread-local slot and is freed by its destructor
                        let _ = ack.send(());
                        break;
                    }
                }
            }
        })
        .expect("spawn caller thread");
    Caller { tx, handle }
}

pub struct HistoryResult {
    /// heap blocks still live after the history that were not live before it (ASan build only)
    pub net_blocks: Option<i64>,
    /// allocation sizes minus deallocation sizes over the history (ASan build only)
    pub net_bytes: Option<i64>,
    pub sim_fp: u64,
    pub violation: Option<(String, String)>,
    pub calls: u64,
    pub skipped: u64,
    pub probes: Vec<(&'static str, u64)>,
}

/// Runs one history on real caller threads. `announce`: print each call to stderr before making
/// it (used in isolated child processes so that an abort is attributed to the call).
pub fn run_history(ops: &[Op], mode: Mode, announce: bool) -> HistoryResult {
    let entry = crate::alloc_count::live_blocks();
    let entry_bytes = crate::alloc_count::live_bytes();
    let mut r = run_history_inner(ops, mode, announce);
    // everything the simulator allocated is dropped by now except what the result itself holds
    let held = r.violation.as_ref().map_or(0, |(a, b)| (a.capacity() > 0) as i64 + (b.capacity() > 0) as i64) + (r.probes.capacity() > 0) as i64;
    let held_bytes = r.violation.as_ref().map_or(0, |(a, b)| a.capacity() + b.capacity()) + r.probes.capacity() * std::mem::size_of::<(&'static str, u64)>();
    r.net_blocks = match (entry, crate::alloc_count::live_blocks()) {
        (Some(a), Some(b)) => Some(b - a - held),
        _ => None,
    };
    r.net_bytes = match (entry_bytes, crate::alloc_count::live_bytes()) {
        (Some(a), Some(b)) => Some(b - a - held_bytes as i64),
        _ => None,
    };
    r
}

fn run_history_inner(ops: &[Op], mode: Mode, announce: bool) -> HistoryResult {
    let sim = Arc::new(Mutex::new(Sim::new(true, mode)));
    let ops_arc = Arc::new(ops.to_vec());
    let (ack_tx, ack_rx) = channel::<()>();
    let mut callers: Vec<Option<Caller>> = (0..NT + 1).map(|_| None).collect();
    let mut thread_exits = 0u64;
    let mut switches = 0u64;
    let mut last_t = usize::MAX;
    for (i, op) in ops.iter().enumerate() {
        let t = (op.t as usize) % NT;
        if op.f == "thread_exit" {
            if let Some(c) = callers[t].take() {
                let _ = c.tx.send(Job::Exit);
                let _ = ack_rx.recv();
                let _ = c.handle.join();
                thread_exits += 1;
                let mut s = sim.lock().unwrap();
                s.pending[t] = false; // the slot died with its thread
                s.expected_msg[t] = None;
                s.log(0x7e);
            }
            continue;
        }
        if callers[t].is_none() {
            callers[t] = Some(spawn_caller(sim.clone(), ops_arc.clone(), ack_tx.clone(), announce));
        }
        if last_t != usize::MAX && last_t != t {
            switches += 1;
        }
        last_t = t;
        let c = callers[t].as_ref().unwrap();
        c.tx.send(Job::Step(i)).expect("caller thread alive");
        ack_rx.recv().expect("caller thread answered");
        let (stop, want) = {
            let mut s = sim.lock().unwrap();
            (s.violation.is_some(), std::mem::take(&mut s.want_probe))
        };
        if stop {
            break;
        }
        if want {
            if callers[NT].is_none() {
                callers[NT] = Some(spawn_caller(sim.clone(), ops_arc.clone(), ack_tx.clone(), announce));
            }
            callers[NT].as_ref().unwrap().tx.send(Job::Probe(i)).expect("probe thread alive");
            ack_rx.recv().expect("probe thread answered");
        }
    }
    // teardown on the main thread (handles are not tied to a thread), then let the callers go
    {
        let mut s = sim.lock().unwrap();
        if announce {
            eprintln!("ANNOUNCE {} teardown", ops.len());
        }
        s.teardown();
    }
    for c in callers.iter_mut() {
        if let Some(c) = c.take() {
            let _ = c.tx.send(Job::Exit);
            let _ = ack_rx.recv();
            let _ = c.handle.join();
        }
    }
    let s = sim.lock().unwrap();
    HistoryResult {
        net_blocks: None,
        net_bytes: None,
        sim_fp: s.fp,
        violation: s.violation.clone(),
        calls: s.calls,
        skipped: s.skipped,
        probes: vec![
            ("fault:null-argument", s.null_args),
            ("fault:wrong-kind-handle", s.wrong_kind),
            ("fault:expected-failure", s.failures_expected),
            ("fault:caller-thread-exit", thread_exits),
            ("reach:borrowed-pointer-read", s.borrow_reads),
            ("reach:take-on-thread-without-error-while-another-has-one", s.cross_thread_takes),
            ("reach:caller-thread-switch", switches),
            ("reach:empty-error-message", s.empty_messages),
            ("reach:error-message-compared-with-fresh-thread-replay", s.messages_compared),
            ("model-mismatch-not-reported-in-memory-mode", s.mismatches_ignored),
        ],
    }
}

// -------------------------------------------------------------------------------------------------
// leak oracle (LeakSanitizer, present only in the ASan build)

#[cfg(verif_asan)]
extern "C" {
    fn __lsan_do_recoverable_leak_check() -> i32;
}

/// `Some(n)`: LeakSanitizer is linked in (the ASan build passes `--cfg verif_asan`) and n != 0 means
/// unreachable memory exists; `None`: not an ASan build.
pub fn lsan_recoverable_check() -> Option<i32> {
    #[cfg(verif_asan)]
    {
        // SAFETY: plain call into the sanitizer runtime; no other thread of the simulator runs now
        Some(unsafe { __lsan_do_recoverable_leak_check() })
    }
    #[cfg(not(verif_asan))]
    {
        None
    }
}

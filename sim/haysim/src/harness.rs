//! Shared run machinery: guarded execution (panic / fuel / channel budget), case and outcome
//! types, canonical value rendering, per-unit fingerprints.

use crate::rng::fnv1a;
use crate::simio::{ChannelBudgetExceeded, ReadPlan, WritePlan};
use libhaystack::val::Value;
use libhaystack::verif_hooks::{self, FuelExhausted};
use serde::{Deserialize, Serialize};
use std::cell::RefCell;
use std::collections::BTreeMap;
use std::panic::{catch_unwind, AssertUnwindSafe};

thread_local! {
    static LAST_PANIC: RefCell<Option<(String, String)>> = const { RefCell::new(None) };
}

/// Silent panic hook: remembers message and location of the last panic on this thread.
pub fn install_panic_hook() {
    std::panic::set_hook(Box::new(|info| {
        let msg = if let Some(s) = info.payload().downcast_ref::<&str>() {
            s.to_string()
        } else if let Some(s) = info.payload().downcast_ref::<String>() {
            s.clone()
        } else {
            "<non-string panic payload>".to_string()
        };
        let loc = info.location().map(|l| format!("{}:{}", l.file(), l.line())).unwrap_or_default();
        // during thread exit the thread-local may already be gone: fall back to a process-wide slot
        let rec = (msg, loc);
        if LAST_PANIC.try_with(|p| *p.borrow_mut() = Some(rec.clone())).is_err() {
            *LAST_PANIC_LATE.lock().unwrap_or_else(|e| e.into_inner()) = Some(rec);
        }
    }));
}

static LAST_PANIC_LATE: std::sync::Mutex<Option<(String, String)>> = std::sync::Mutex::new(None);

/// Message and location of the last panic seen by the hook on this thread.
pub fn take_last_panic() -> Option<(String, String)> {
    LAST_PANIC.try_with(|p| p.borrow_mut().take()).ok().flatten().or_else(|| LAST_PANIC_LATE.lock().unwrap_or_else(|e| e.into_inner()).take())
}

#[derive(Debug)]
pub enum Caught<T> {
    Done(T),
    Panic { msg: String, loc: String },
    Fuel { site: String, used: u64 },
    ChanBudget { calls: u64 },
    /// a simulated party (resolver, caller) exceeded its callback budget
    Budget { what: &'static str, n: u64 },
}

/// Unwind payload for step budgets owned by simulated parties other than the byte channel.
pub struct StepBudgetExceeded {
    pub what: &'static str,
    pub n: u64,
}

/// Runs `f` with the step counter armed; classifies how it ended. Returns ticks used.
pub fn guarded<T>(fuel: u64, f: impl FnOnce() -> T) -> (Caught<T>, u64) {
    guarded_with(fuel, false, f)
}

/// `abort_mode`: the code under test runs below an `extern "C"` frame, where exhaustion of the
/// budget cannot unwind: the counter then writes `VERIF-FUEL-EXHAUSTED` to stderr and aborts.
pub fn guarded_with<T>(fuel: u64, abort_mode: bool, f: impl FnOnce() -> T) -> (Caught<T>, u64) {
    LAST_PANIC.with(|p| *p.borrow_mut() = None);
    if abort_mode {
        verif_hooks::arm_abort(fuel);
    } else {
        verif_hooks::arm(fuel);
    }
    let r = catch_unwind(AssertUnwindSafe(f));
    let used = verif_hooks::disarm();
    match r {
        Ok(v) => (Caught::Done(v), used),
        Err(payload) => {
            if let Some(f) = payload.downcast_ref::<FuelExhausted>() {
                (Caught::Fuel { site: f.site.to_string(), used: f.used }, used)
            } else if let Some(c) = payload.downcast_ref::<ChannelBudgetExceeded>() {
                (Caught::ChanBudget { calls: c.calls }, used)
            } else if let Some(b) = payload.downcast_ref::<StepBudgetExceeded>() {
                (Caught::Budget { what: b.what, n: b.n }, used)
            } else {
                let (msg, loc) = LAST_PANIC.with(|p| p.borrow_mut().take()).unwrap_or_else(|| ("<unknown panic>".into(), String::new()));
                (Caught::Panic { msg, loc }, used)
            }
        }
    }
}

/// Message class: digits collapsed, quoted payloads dropped, bounded length — stable across inputs.
pub fn msg_class(msg: &str) -> String {
    let mut out = String::new();
    let mut last_hash = false;
    for c in msg.chars() {
        if c.is_ascii_digit() {
            if !last_hash {
                out.push('#');
            }
            last_hash = true;
        } else {
            last_hash = false;
            out.push(if c.is_control() { ' ' } else { c });
        }
        if out.len() >= 90 {
            break;
        }
    }
    out
}

/// Source path relative to the repository (drops the line number so that an unrelated edit
/// above the site does not change the signature).
pub fn loc_class(loc: &str) -> String {
    let file = loc.rsplit_once(':').map_or(loc, |(f, _)| f);
    match file.find("/src/") {
        Some(i) if !file.starts_with("src/") => file[i + 1..].to_string(),
        _ => file.to_string(),
    }
}

#[derive(Serialize, Deserialize, Clone, Debug, Default)]
pub struct Case {
    pub prop: String,
    pub scenario: String,
    /// document bytes, hex
    pub doc: String,
    #[serde(default)]
    pub read: ReadPlan,
    #[serde(default)]
    pub write: WritePlan,
    /// scenario specific parameters
    #[serde(default)]
    pub extra: BTreeMap<String, serde_json::Value>,
    /// where the case came from (unit, family, base document) — informational
    #[serde(default)]
    pub origin: String,
}

impl Case {
    pub fn new(prop: &str, scenario: &str, doc: &[u8]) -> Case {
        Case { prop: prop.into(), scenario: scenario.into(), doc: hex(doc), ..Default::default() }
    }
    pub fn doc_bytes(&self) -> Vec<u8> {
        unhex(&self.doc)
    }
    pub fn identity(&self) -> u64 {
        let mut c = self.clone();
        c.origin.clear();
        fnv1a(serde_json::to_string(&c).unwrap_or_default().as_bytes())
    }
    pub fn extra_usize(&self, key: &str) -> Option<usize> {
        self.extra.get(key).and_then(|v| v.as_u64()).map(|v| v as usize)
    }
    pub fn extra_str(&self, key: &str) -> Option<&str> {
        self.extra.get(key).and_then(|v| v.as_str())
    }
}

pub fn hex(b: &[u8]) -> String {
    const H: &[u8] = b"0123456789abcdef";
    let mut s = String::with_capacity(b.len() * 2);
    for x in b {
        s.push(H[(x >> 4) as usize] as char);
        s.push(H[(x & 15) as usize] as char);
    }
    s
}

pub fn unhex(s: &str) -> Vec<u8> {
    let b = s.as_bytes();
    let v = |c: u8| -> u8 {
        match c {
            b'0'..=b'9' => c - b'0',
            b'a'..=b'f' => c - b'a' + 10,
            b'A'..=b'F' => c - b'A' + 10,
            _ => 0,
        }
    };
    (0..b.len() / 2).map(|i| (v(b[2 * i]) << 4) | v(b[2 * i + 1])).collect()
}

#[derive(Serialize, Deserialize, Clone, Debug, Default)]
pub struct Violation {
    /// stable class of the failure, used for known-finding matching and minimisation
    pub signature: String,
    pub detail: String,
}

#[derive(Clone, Debug, Default)]
pub struct Outcome {
    pub violation: Option<Violation>,
    /// hash of everything observable about the run (result, counters): determinism fingerprint
    pub fingerprint: u64,
    /// a fault fired inside the operation / the schedule mattered
    pub nontrivial: bool,
    /// the decoder accepted the input
    pub accepted: bool,
    /// simulated steps (channel calls + fuel ticks)
    pub steps: u64,
    /// names of reach probes hit and fault kinds fired (name -> count)
    pub probes: Vec<(&'static str, u64)>,
    /// identity used for counting distinct non-trivial cases when it is more than the case
    /// itself (e.g. workload + realised interleaving)
    pub distinct_key: Option<u64>,
}

impl Outcome {
    pub fn probe(&mut self, name: &'static str, n: u64) {
        if n > 0 {
            self.probes.push((name, n));
        }
    }
    pub fn violate(&mut self, signature: String, detail: String) {
        if self.violation.is_none() {
            self.violation = Some(Violation { signature, detail });
        }
    }
}

/// Canonical rendering of a value with every component the properties name:
/// kind, number bits (NaN canonical, -0 == +0) and unit, string contents, Ref id *and* dis,
/// timestamp instant + offset + zone name, collections in order. Grid `ver` is left out and an
/// absent grid meta equals an empty one (relaxations stated in DESIGN.md §5/C11).
pub fn canon(v: &Value) -> String {
    let mut s = String::new();
    canon_into(v, &mut s);
    s
}

fn canon_num(x: f64, s: &mut String) {
    if x.is_nan() {
        s.push_str("NaN");
    } else if x == 0.0 {
        s.push('0');
    } else {
        s.push_str(&format!("{:e}", x));
    }
}

fn canon_dict(d: &libhaystack::val::Dict, s: &mut String) {
    s.push('{');
    for (k, v) in d.iter() {
        s.push_str(&format!("{k:?}:"));
        canon_into(v, s);
        s.push(',');
    }
    s.push('}');
}

pub fn canon_into(v: &Value, s: &mut String) {
    use chrono::SecondsFormat;
    match v {
        Value::Null => s.push_str("null"),
        Value::Marker => s.push_str("marker"),
        Value::Remove => s.push_str("remove"),
        Value::Na => s.push_str("na"),
        Value::Bool(b) => s.push_str(if b.value { "true" } else { "false" }),
        Value::Number(n) => {
            s.push_str("num(");
            canon_num(n.value, s);
            if let Some(u) = n.unit {
                s.push_str(&format!(" {:?}", u.symbol()));
            }
            s.push(')');
        }
        Value::Str(x) => s.push_str(&format!("str({:?})", x.value)),
        Value::Ref(r) => s.push_str(&format!("ref({:?},{:?})", r.value, r.dis)),
        Value::Uri(u) => s.push_str(&format!("uri({:?})", u.value)),
        Value::Symbol(x) => s.push_str(&format!("sym({:?})", x.value)),
        // calendar fields read through chrono, not through the library's own Display (which is code under test)
        Value::Date(d) => {
            use chrono::Datelike;
            s.push_str(&format!("date({}-{}-{})", d.year(), d.month(), d.day()))
        }
        Value::Time(t) => {
            use chrono::Timelike;
            s.push_str(&format!("time({}:{}:{}.{:09})", t.hour(), t.minute(), t.second(), t.nanosecond()))
        }
        Value::DateTime(dt) => s.push_str(&format!(
            "dt({} tz={:?})",
            dt.to_rfc3339_opts(SecondsFormat::Nanos, false),
            dt.timezone_short_name()
        )),
        Value::Coord(c) => {
            s.push_str("coord(");
            canon_num(c.lat, s);
            s.push(',');
            canon_num(c.long, s);
            s.push(')');
        }
        Value::XStr(x) => s.push_str(&format!("xstr({:?},{:?})", x.r#type, x.value)),
        Value::List(l) => {
            s.push('[');
            for e in l {
                canon_into(e, s);
                s.push(',');
            }
            s.push(']');
        }
        Value::Dict(d) => canon_dict(d, s),
        Value::Grid(g) => {
            s.push_str("grid(meta=");
            match &g.meta {
                Some(m) => canon_dict(m, s),
                None => s.push_str("{}"),
            }
            s.push_str(" cols=[");
            for c in &g.columns {
                s.push_str(&format!("{:?}", c.name));
                match &c.meta {
                    Some(m) if !m.is_empty() => canon_dict(m, s),
                    _ => {}
                }
                s.push(',');
            }
            s.push_str("] rows=[");
            for r in &g.rows {
                // a Null cell and a missing cell are the same thing in a row (Haystack dicts hold no nulls)
                s.push('{');
                for (k, v) in r.iter().filter(|(_, v)| !v.is_null()) {
                    s.push_str(&format!("{k:?}:"));
                    canon_into(v, s);
                    s.push(',');
                }
                s.push('}');
                s.push(',');
            }
            s.push_str("])");
        }
    }
}

/// First difference between two canonical renderings, with context.
pub fn canon_diff(a: &str, b: &str) -> String {
    let ab = a.as_bytes();
    let bb = b.as_bytes();
    let mut i = 0;
    while i < ab.len() && i < bb.len() && ab[i] == bb[i] {
        i += 1;
    }
    let from = i.saturating_sub(30);
    let cut = |x: &str| -> String {
        let mut st = from;
        while !x.is_char_boundary(st) && st > 0 {
            st -= 1;
        }
        let mut en = (i + 40).min(x.len());
        while !x.is_char_boundary(en) && en < x.len() {
            en += 1;
        }
        x[st.min(x.len())..en].to_string()
    };
    format!("at canon offset {i}: …{}… vs …{}…", cut(a), cut(b))
}

/// Per-unit accumulator written by workers, merged by the driver.
#[derive(Serialize, Deserialize, Clone, Debug, Default)]
pub struct UnitResult {
    pub unit: u64,
    pub name: String,
    pub cases: u64,
    pub nontrivial: u64,
    pub accepted: u64,
    pub steps: u64,
    /// order-sensitive fold of the case fingerprints: equal iff every case behaved identically
    pub fingerprint: u64,
    pub probes: BTreeMap<String, u64>,
    pub violations: Vec<(Violation, Case)>,
    pub violations_total: u64,
    pub max_ticks_per_byte_x100: u64,
    pub samples: Vec<serde_json::Value>,
    pub exhaustive: bool,
}


// ---------------------------------------------------------------------------------------------
// decoding while a thread winds down: a decode issued from the destructor of another thread-local

pub type DecodeFn = fn(&[u8]);

struct ExitGuard {
    work: RefCell<Option<(DecodeFn, Vec<u8>)>>,
}

impl Drop for ExitGuard {
    fn drop(&mut self) {
        if let Some((f, doc)) = self.work.borrow_mut().take() {
            // the thread-locals of this thread are being destroyed, in reverse order of creation
            let r = catch_unwind(AssertUnwindSafe(|| f(&doc)));
            if r.is_err() {
                let (msg, loc) = take_last_panic().unwrap_or_else(|| ("<panic>".into(), String::new()));
                *EXIT_PANIC.lock().unwrap_or_else(|e| e.into_inner()) = Some((msg, loc));
            }
        }
    }
}

thread_local! {
    static EXIT_GUARD: ExitGuard = const { ExitGuard { work: RefCell::new(None) } };
}

static EXIT_PANIC: std::sync::Mutex<Option<(String, String)>> = std::sync::Mutex::new(None);

/// Runs `f(doc)` from the destructor of a thread-local of a thread that is exiting. With
/// `guard_first` the guard is created before the thread's first ordinary decode (so it is destroyed
/// after whatever thread-locals that decode created), otherwise after it. Returns the panic
/// (message, location) of the decode in the destructor, if any.
pub fn decode_during_thread_exit(f: DecodeFn, doc: &[u8], guard_first: bool) -> Option<(String, String)> {
    *EXIT_PANIC.lock().unwrap_or_else(|e| e.into_inner()) = None;
    let doc = doc.to_vec();
    let h = std::thread::Builder::new().stack_size(8 << 20).spawn(move || {
        install_thread_panic_capture();
        if guard_first {
            EXIT_GUARD.with(|g| *g.work.borrow_mut() = Some((f, doc.clone())));
            let _ = catch_unwind(AssertUnwindSafe(|| f(&doc)));
        } else {
            let _ = catch_unwind(AssertUnwindSafe(|| f(&doc)));
            EXIT_GUARD.with(|g| *g.work.borrow_mut() = Some((f, doc.clone())));
        }
    });
    if let Ok(h) = h {
        let _ = h.join();
    }
    EXIT_PANIC.lock().unwrap_or_else(|e| e.into_inner()).take()
}

/// the panic hook is process-wide; LAST_PANIC is per thread and created on first use
fn install_thread_panic_capture() {
    LAST_PANIC.with(|p| *p.borrow_mut() = None);
}

//! C17 / C18 — engines over `capi` (the simulated C caller): seeded call histories with swarm
//! weights, plus enumerated sweeps (every pointer parameter null, every handle parameter of every
//! function against every kind, index boundaries, error-slot scenarios across caller threads).

use crate::capi::{self, Mode, Op, Sim, BORROW_BASE, NB, NF, NS, NT, NV};
use crate::corpus;
use crate::engine::{Ctx, Engine, Tier, UnitSpec};
use crate::gen_filter::{self, FilterCfg};
use crate::gen_json::{self, JsonCfg};
use crate::gen_zinc::{self, GenCfg, UNITS, ZONES};
use crate::harness::*;
use crate::mutate;
use crate::rng::{fnv1a, mix, Rng};
use libhaystack::val::Value;

pub struct CApi {
    pub ctx: Ctx,
    pub mode: Mode,
}

#[derive(Clone, Copy, Debug, PartialEq, Eq)]
pub enum K {
    Any,
    Null,
    Marker,
    Na,
    Remove,
    Bool,
    Number,
    Coord,
    Str,
    Ref,
    Uri,
    Symbol,
    XStr,
    Time,
    Date,
    DateTime,
    List,
    Dict,
    Grid,
}

fn kind_of(v: &Value) -> K {
    match v {
        Value::Null => K::Null,
        Value::Marker => K::Marker,
        Value::Na => K::Na,
        Value::Remove => K::Remove,
        Value::Bool(_) => K::Bool,
        Value::Number(_) => K::Number,
        Value::Coord(_) => K::Coord,
        Value::Str(_) => K::Str,
        Value::Ref(_) => K::Ref,
        Value::Uri(_) => K::Uri,
        Value::Symbol(_) => K::Symbol,
        Value::XStr(_) => K::XStr,
        Value::Time(_) => K::Time,
        Value::Date(_) => K::Date,
        Value::DateTime(_) => K::DateTime,
        Value::List(_) => K::List,
        Value::Dict(_) => K::Dict,
        Value::Grid(_) => K::Grid,
    }
}

/// role of a slot argument, in the order the simulator expects them in `Op::h`
#[derive(Clone, Copy, Debug, PartialEq, Eq)]
pub enum A {
    /// empty value slot receiving the returned handle
    NewVal,
    /// input handle (`*const Value`; a borrowed entry pointer is acceptable)
    In(K),
    /// handle the call may write through (`*mut Value` container)
    Own(K),
    /// `result: *mut Value` out-parameter: a live handle of any kind
    Out,
    /// empty string slot receiving the returned `char*`
    NewStr,
    /// live string slot (haystack_string_destroy)
    LiveStr,
    NewFilter,
    InFilter,
    /// `result: *mut *const Value`: a borrow slot
    BorrowOut,
    LiveBorrow,
}

#[derive(Clone, Copy, Debug, PartialEq, Eq)]
pub enum N {
    Bool,
    F64,
    Hour,
    Min,
    Sec,
    Milli,
    Year,
    Month,
    Day,
    Index,
}

#[derive(Clone, Copy, Debug, PartialEq, Eq)]
pub enum S {
    Text,
    Unit,
    Zone,
    Key,
    Zinc,
    Json,
    FilterText,
}

#[derive(Clone, Copy, Debug, PartialEq, Eq)]
pub enum Cat {
    MakeScalar,
    MakeContainer,
    Is,
    Get,
    Mutate,
    Entry,
    Codec,
    Filter,
    Err,
    Destroy,
}

pub struct Spec {
    pub f: &'static str,
    pub h: &'static [A],
    pub n: &'static [N],
    pub s: &'static [S],
    pub cat: Cat,
}

macro_rules! spec {
    ($f:expr, $cat:ident, [$($h:expr),*], [$($n:expr),*], [$($s:expr),*]) => {
        Spec { f: $f, h: &[$($h),*], n: &[$($n),*], s: &[$($s),*], cat: Cat::$cat }
    };
}

/// All 91 exported functions (+ the pseudo operation `borrow_read`).
pub const SPECS: &[Spec] = &[
    spec!("haystack_value_init", MakeScalar, [A::NewVal], [], []),
    spec!("haystack_value_destroy", Destroy, [A::Own(K::Any)], [], []),
    spec!("haystack_value_is_null", Is, [A::In(K::Null)], [], []),
    spec!("haystack_value_is_marker", Is, [A::In(K::Marker)], [], []),
    spec!("haystack_value_is_na", Is, [A::In(K::Na)], [], []),
    spec!("haystack_value_is_remove", Is, [A::In(K::Remove)], [], []),
    spec!("haystack_value_is_bool", Is, [A::In(K::Bool)], [], []),
    spec!("haystack_value_is_number", Is, [A::In(K::Number)], [], []),
    spec!("haystack_value_is_coord", Is, [A::In(K::Coord)], [], []),
    spec!("haystack_value_is_str", Is, [A::In(K::Str)], [], []),
    spec!("haystack_value_is_ref", Is, [A::In(K::Ref)], [], []),
    spec!("haystack_value_is_uri", Is, [A::In(K::Uri)], [], []),
    spec!("haystack_value_is_symbol", Is, [A::In(K::Symbol)], [], []),
    spec!("haystack_value_is_xstr", Is, [A::In(K::XStr)], [], []),
    spec!("haystack_value_is_time", Is, [A::In(K::Time)], [], []),
    spec!("haystack_value_is_date", Is, [A::In(K::Date)], [], []),
    spec!("haystack_value_is_datetime", Is, [A::In(K::DateTime)], [], []),
    spec!("haystack_value_is_list", Is, [A::In(K::List)], [], []),
    spec!("haystack_value_is_dict", Is, [A::In(K::Dict)], [], []),
    spec!("haystack_value_is_grid", Is, [A::In(K::Grid)], [], []),
    spec!("haystack_value_make_marker", MakeScalar, [A::NewVal], [], []),
    spec!("haystack_value_make_na", MakeScalar, [A::NewVal], [], []),
    spec!("haystack_value_make_remove", MakeScalar, [A::NewVal], [], []),
    spec!("haystack_value_make_bool", MakeScalar, [A::NewVal], [N::Bool], []),
    spec!("haystack_value_make_number", MakeScalar, [A::NewVal], [N::F64], []),
    spec!("haystack_value_make_number_with_unit", MakeScalar, [A::NewVal], [N::F64], [S::Unit]),
    spec!("haystack_value_make_coord", MakeScalar, [A::NewVal], [N::F64, N::F64], []),
    spec!("haystack_value_make_str", MakeScalar, [A::NewVal], [], [S::Text]),
    spec!("haystack_value_make_ref", MakeScalar, [A::NewVal], [], [S::Text]),
    spec!("haystack_value_make_ref_with_dis", MakeScalar, [A::NewVal], [], [S::Text, S::Text]),
    spec!("haystack_value_make_uri", MakeScalar, [A::NewVal], [], [S::Text]),
    spec!("haystack_value_make_symbol", MakeScalar, [A::NewVal], [], [S::Text]),
    spec!("haystack_value_make_xstr", MakeScalar, [A::NewVal], [], [S::Text, S::Text]),
    spec!("haystack_value_make_time", MakeScalar, [A::NewVal], [N::Hour, N::Min, N::Sec], []),
    spec!("haystack_value_make_time_millis", MakeScalar, [A::NewVal], [N::Hour, N::Min, N::Sec, N::Milli], []),
    spec!("haystack_value_make_date", MakeScalar, [A::NewVal], [N::Year, N::Month, N::Day], []),
    spec!("haystack_value_make_utc_datetime", MakeScalar, [A::NewVal, A::In(K::Date), A::In(K::Time)], [], []),
    spec!("haystack_value_make_tz_datetime", MakeScalar, [A::NewVal, A::In(K::Date), A::In(K::Time)], [], [S::Zone]),
    spec!("haystack_value_make_list", MakeContainer, [A::NewVal], [], []),
    spec!("haystack_value_make_dict", MakeContainer, [A::NewVal], [], []),
    spec!("haystack_value_make_grid", MakeContainer, [A::NewVal], [], []),
    spec!("haystack_value_get_number_value", Get, [A::In(K::Number)], [], []),
    spec!("haystack_value_number_has_unit", Get, [A::In(K::Number)], [], []),
    spec!("haystack_value_get_number_unit", Get, [A::In(K::Number), A::NewStr], [], []),
    spec!("haystack_value_get_coord_lat", Get, [A::In(K::Coord)], [], []),
    spec!("haystack_value_get_coord_long", Get, [A::In(K::Coord)], [], []),
    spec!("haystack_value_get_str_len", Get, [A::In(K::Str)], [], []),
    spec!("haystack_value_get_str_value", Get, [A::In(K::Str), A::NewStr], [], []),
    spec!("haystack_value_get_ref_value_len", Get, [A::In(K::Ref)], [], []),
    spec!("haystack_value_get_ref_value", Get, [A::In(K::Ref), A::NewStr], [], []),
    spec!("haystack_value_get_ref_dis", Get, [A::In(K::Ref), A::NewStr], [], []),
    spec!("haystack_value_get_symbol_value_len", Get, [A::In(K::Symbol)], [], []),
    spec!("haystack_value_get_symbol_value", Get, [A::In(K::Symbol), A::NewStr], [], []),
    spec!("haystack_value_get_uri_value_len", Get, [A::In(K::Uri)], [], []),
    spec!("haystack_value_get_uri_value", Get, [A::In(K::Uri), A::NewStr], [], []),
    spec!("haystack_value_get_xstr_type", Get, [A::In(K::XStr), A::NewStr], [], []),
    spec!("haystack_value_get_xstr_value", Get, [A::In(K::XStr), A::NewStr], [], []),
    spec!("haystack_value_get_date_year", Get, [A::In(K::Date)], [], []),
    spec!("haystack_value_get_date_month", Get, [A::In(K::Date)], [], []),
    spec!("haystack_value_get_date_day", Get, [A::In(K::Date)], [], []),
    spec!("haystack_value_get_time_hour", Get, [A::In(K::Time)], [], []),
    spec!("haystack_value_get_time_minutes", Get, [A::In(K::Time)], [], []),
    spec!("haystack_value_get_time_seconds", Get, [A::In(K::Time)], [], []),
    spec!("haystack_value_get_time_millis", Get, [A::In(K::Time)], [], []),
    spec!("haystack_value_get_datetime_date", Get, [A::In(K::DateTime), A::Out], [N::Bool], []),
    spec!("haystack_value_get_datetime_time", Get, [A::In(K::DateTime), A::Out], [N::Bool], []),
    spec!("haystack_value_get_datetime_timezone", Get, [A::In(K::DateTime), A::NewStr], [], []),
    spec!("haystack_value_get_list_len", Get, [A::In(K::List)], [], []),
    spec!("haystack_value_push_list_entry", Mutate, [A::Own(K::List), A::In(K::Any)], [], []),
    spec!("haystack_value_get_list_entry_at", Entry, [A::In(K::List), A::BorrowOut], [N::Index], []),
    spec!("haystack_value_set_list_entry_at", Mutate, [A::Own(K::List), A::In(K::Any)], [N::Index], []),
    spec!("haystack_value_remove_list_entry_at", Mutate, [A::Own(K::List)], [N::Index], []),
    spec!("haystack_value_get_dict_len", Get, [A::In(K::Dict)], [], []),
    spec!("haystack_value_get_dict_keys", Get, [A::In(K::Dict), A::Out], [], []),
    spec!("haystack_value_insert_dict_entry", Mutate, [A::Own(K::Dict), A::In(K::Any)], [], [S::Key]),
    spec!("haystack_value_get_dict_entry", Entry, [A::In(K::Dict), A::BorrowOut], [], [S::Key]),
    spec!("haystack_value_remove_dict_entry", Mutate, [A::Own(K::Dict)], [], [S::Key]),
    spec!("haystack_value_get_grid_len", Get, [A::In(K::Grid)], [], []),
    spec!("haystack_value_make_grid_from_rows", MakeContainer, [A::NewVal, A::In(K::List)], [], []),
    spec!("haystack_value_make_grid_from_rows_with_meta", MakeContainer, [A::NewVal, A::In(K::List), A::In(K::Dict)], [], []),
    spec!("haystack_value_get_grid_row_at", Get, [A::In(K::Grid), A::Out], [N::Index], []),
    spec!("haystack_value_to_zinc_string", Codec, [A::In(K::Any), A::NewStr], [], []),
    spec!("haystack_value_from_zinc_string", Codec, [A::NewVal], [], [S::Zinc]),
    spec!("haystack_value_to_json_string", Codec, [A::In(K::Any), A::NewStr], [], []),
    spec!("haystack_value_from_json_string", Codec, [A::NewVal], [], [S::Json]),
    spec!("haystack_filter_parse", Filter, [A::NewFilter], [], [S::FilterText]),
    spec!("haystack_filter_match_dict", Filter, [A::InFilter, A::In(K::Dict)], [], []),
    spec!("haystack_filter_first_match_in_grid", Filter, [A::InFilter, A::In(K::Grid), A::Out], [], []),
    spec!("haystack_filter_match_all_grid", Filter, [A::InFilter, A::In(K::Grid), A::Out], [], []),
    spec!("last_error_message", Err, [A::NewStr], [], []),
    spec!("haystack_string_destroy", Destroy, [A::LiveStr], [], []),
    spec!("borrow_read", Entry, [A::LiveBorrow], [], []),
];

pub fn spec_of(f: &str) -> Option<&'static Spec> {
    SPECS.iter().find(|s| s.f == f)
}

// -------------------------------------------------------------------------------------------------
// argument pools

const TEXTS: &[&str] = &["", "a", "abc", "hello world", "é", "日本語", "a\"b", "a\\b", "$x ${y}", "line\nbreak", "tab\there", "x y", "r1", "site", "a-b:c.d~e", "😀", "Bin", "text/plain", "\u{7f}", "\u{1}"];
const KEYS: &[&str] = &["a", "b", "c", "site", "dis", "id", "x", "siteRef", "equipRef", "é", "", "key with space", "A", "zz"];
const BAD_UNITS: &[&str] = &["", "nope", "kW ", "KW", "°", "kilowatt hour", "m/s/s/s"];
const BAD_ZONES: &[&str] = &["", "Nowhere", "new_york", "UTC+1", "Mars/Olympus", "GMT+25"];
const F64S: &[f64] = &[
    0.0, -0.0, 1.0, -1.0, 1.5, 42.0, 1e10, 1e-10, 9007199254740992.0, 9007199254740993.0, 9007199254740994.0, f64::MAX, f64::MIN_POSITIVE, f64::NAN, f64::INFINITY, f64::NEG_INFINITY, 90.0, -180.0,
    255.0, 256.0, 65535.0, 65536.0, 2147483647.0, 2147483648.0, -2147483648.0, -2147483649.0, 4294967295.0, 4294967296.0, 9223372036854775807.0, -9223372036854775808.0, 18446744073709551615.0, 1e23, 5e-324,
];
const FILTERS: &[&str] = &["site", "a", "not a", "a == 1", "a and b", "a or site", "x > 1", "dis == \"rec 1\"", "siteRef->site", "siteRef == @r1", "a->b->c", "^site", "b == \"x\"", "a < 2 and b", "(a or b) and not c"];
const BAD_FILTERS: &[&str] = &["", "a and", "o or", "dict->", "(a", "a == ", "==", "a b", "a === 1", "\"x\"", "1 == a", "a->", "not", ")"];
const ZINC_RECORDS: &[&str] = &[
    "{a:1 b:\"x\" site}",
    "{a:2 dis:\"rec 1\" siteRef:@r1 equip}",
    "{id:@r1 site dis:\"Site\"}",
    "{x:5kW c:[1,2,3]}",
    "{}",
    "ver:\"3.0\"\na,b\n1,\"x\"\n2,\"y\"\n3,N\n",
    "ver:\"3.0\" m:\"meta\"\nid,site,a,siteRef\n@r1,M,1,N\n@r2,N,2,@r1\n@r3,N,N,@r1\n",
    "ver:\"3.0\"\nempty\n",
    "[{a:1},{a:2 b:\"x\"},{site}]",
    "[{a:1},3,\"s\"]",
    "[{}]",
    "[{},{}]",
    "[{},{a:N}]",
    "[[],{},[{}]]",
    "[1,2,3]",
    "[]",
];

/// strings with a multi-byte character straddling a round byte offset
fn long_text(rng: &mut Rng) -> Vec<u8> {
    let target = *rng.pick(&[63usize, 64, 65, 127, 128, 129, 255, 256, 257, 300, 511, 513, 1000, 4097]);
    let ch = *rng.pick(&["a", "é", "日", "😀", "x"]);
    let mut s = String::new();
    for _ in 0..rng.range(0, 3) {
        s.push('p'); // phase: shifts where the multi-byte characters fall
    }
    while s.len() < target {
        s.push_str(ch);
    }
    s.into_bytes()
}

fn invalid_utf8(rng: &mut Rng) -> Vec<u8> {
    rng.pick(&[&b"\xff"[..], &b"a\xc3"[..], &b"\xe2\x82"[..], &b"ok\xf0\x9f\x98"[..], &b"\xc0\xaf"[..], &b"\xed\xa0\x80"[..]]).to_vec()
}

struct Weights {
    cat: [u32; 10],
    p_fault: u64,     // per-mille: a handle argument is drawn wrong on purpose
    p_null: u64,      // per-mille: a pointer argument is null
    p_bad_text: u64,  // per-mille: invalid UTF-8 / long / rejected text
    p_take: u64,      // per-mille: a failing call is followed by last_error_message on the same thread
    p_switch: u64,    // per-mille: the next call comes from another caller thread
    p_borrow_arg: u64,
    threads: usize,
    len: usize,
}

impl Weights {
    fn swarm(rng: &mut Rng) -> Weights {
        let mut cat = [0u32; 10];
        for c in cat.iter_mut() {
            *c = *rng.pick(&[0u32, 1, 2, 4, 8]);
        }
        // histories need handles: constructors are never switched off entirely
        cat[Cat::MakeScalar as usize] = cat[Cat::MakeScalar as usize].max(2);
        cat[Cat::MakeContainer as usize] = cat[Cat::MakeContainer as usize].max(1);
        cat[Cat::Codec as usize] = cat[Cat::Codec as usize].max(1);
        Weights {
            cat,
            p_fault: *rng.pick(&[0u64, 50, 150, 400]),
            p_null: *rng.pick(&[0u64, 20, 100, 300]),
            p_bad_text: *rng.pick(&[0u64, 50, 200]),
            p_take: *rng.pick(&[200u64, 600, 950]),
            p_switch: *rng.pick(&[0u64, 100, 500]),
            p_borrow_arg: *rng.pick(&[0u64, 100, 300]),
            threads: rng.range(1, NT),
            len: *rng.pick(&[6usize, 12, 24, 40, 60]),
        }
    }
}

struct Gen<'r> {
    rng: &'r mut Rng,
    w: Weights,
    sim: Sim,
    ops: Vec<Op>,
    t: u8,
}

impl<'r> Gen<'r> {
    fn live_vals(&self) -> Vec<usize> {
        (0..NV).filter(|i| self.sim.vals[*i].is_some()).collect()
    }
    fn live_of(&self, k: K) -> Vec<usize> {
        (0..NV).filter(|i| self.sim.vals[*i].as_ref().is_some_and(|v| k == K::Any || kind_of(v) == k)).collect()
    }
    fn empty_val(&mut self) -> Option<usize> {
        let e: Vec<usize> = (0..NV).filter(|i| self.sim.vals[*i].is_none()).collect();
        if e.is_empty() {
            None
        } else {
            Some(*self.rng.pick(&e))
        }
    }

    fn text(&mut self, kind: S) -> Option<Vec<u8>> {
        let rng = &mut *self.rng;
        if rng.chance(self.w.p_null, 1000) {
            return None;
        }
        if rng.chance(self.w.p_bad_text, 1000) {
            return Some(match rng.below(4) {
                3 if matches!(kind, S::Zinc | S::Json) => {
                    // a large document (past 64 KiB) that is broken at its very end or in the middle
                    let items = 9000 + rng.usize(9000);
                    let mut d: Vec<u8> = Vec::with_capacity(items * 8);
                    d.push(b'[');
                    for i in 0..items {
                        d.extend_from_slice(if kind == S::Zinc { b"12345, " } else { b"12345 , " });
                        if i == items / 2 && rng.chance(1, 2) {
                            d.extend_from_slice(b"@@@ ??? ");
                        }
                    }
                    d.extend_from_slice(if rng.chance(1, 2) { b"1" } else { b"1]]" });
                    d
                }
                3 => long_text(rng),
                0 => {
                    let bad = if rng.chance(1, 2) { invalid_utf8(rng) } else { rng.pick(mutate::BAD_UTF8).to_vec() };
                    // for the document kinds also inside a literal of an otherwise well-formed text
                    match kind {
                        S::Zinc | S::FilterText | S::Json if rng.chance(2, 3) => {
                            let (pre, post): (&[u8], &[u8]) = match (kind, rng.below(3)) {
                                (S::Zinc, 0) => (b"\"caf", b"\""),
                                (S::Zinc, 1) => (b"{dis:\"", b"\" site}"),
                                (S::Zinc, _) => (b"ver:\"3.0\"\na\n`http://x/", b"`\n"),
                                (S::FilterText, _) => (b"dis == \"", b"\" and site"),
                                (_, 0) => (b"\"", b"\""),
                                (_, _) => (b"{\"dis\":\"", b"\",\"site\":{\"_kind\":\"marker\"}}"),
                            };
                            let mut d = pre.to_vec();
                            d.extend_from_slice(&bad);
                            d.extend_from_slice(post);
                            d
                        }
                        _ => bad,
                    }
                }
                1 => long_text(rng),
                _ => match kind {
                    S::Unit => rng.pick_str(BAD_UNITS).as_bytes().to_vec(),
                    S::Zone => rng.pick_str(BAD_ZONES).as_bytes().to_vec(),
                    S::FilterText => rng.pick_str(BAD_FILTERS).as_bytes().to_vec(),
                    S::Zinc => {
                        let mut d = rng.pick_str(corpus::ZINC_HAND).as_bytes().to_vec();
                        for _ in 0..rng.range(1, 3) {
                            mutate::random_op(rng, &mut d, &[], b"{a:1}", &[]);
                        }
                        d
                    }
                    S::Json => {
                        let mut d = rng.pick_str(corpus::JSON_HAND).as_bytes().to_vec();
                        if rng.chance(1, 4) {
                            d = b"{\"_kind\":\"a\\u0000b\"}".to_vec();
                        } else {
                            for _ in 0..rng.range(1, 3) {
                                mutate::random_op(rng, &mut d, &[], b"{\"a\":1}", &[]);
                            }
                        }
                        d
                    }
                    _ => long_text(rng),
                },
            });
        }
        Some(match kind {
            S::Text => rng.pick_str(TEXTS).as_bytes().to_vec(),
            S::Unit => rng.pick_str(UNITS).as_bytes().to_vec(),
            S::Zone => {
                // any zone of the tz database, spelled as the full id, as everything after the
                // first '/', or as the last segment (the city)
                if rng.chance(1, 3) {
                    rng.pick_str(ZONES).as_bytes().to_vec()
                } else {
                    let id = chrono_tz::TZ_VARIANTS[rng.usize(chrono_tz::TZ_VARIANTS.len())].name();
                    match rng.below(3) {
                        0 => id.as_bytes().to_vec(),
                        1 => id[id.find('/').map_or(0, |i| i + 1)..].as_bytes().to_vec(),
                        _ => id[id.rfind('/').map_or(0, |i| i + 1)..].as_bytes().to_vec(),
                    }
                }
            }
            S::Key => rng.pick_str(KEYS).as_bytes().to_vec(),
            S::FilterText => {
                if rng.chance(1, 2) {
                    rng.pick_str(FILTERS).as_bytes().to_vec()
                } else {
                    let mut cfg = FilterCfg::swarm(rng);
                    cfg.small_universe = true;
                    cfg.max_depth = cfg.max_depth.min(2);
                    gen_filter::gen_filter(rng, &cfg).into_bytes()
                }
            }
            S::Zinc => match rng.below(4) {
                0 => rng.pick_str(ZINC_RECORDS).as_bytes().to_vec(),
                1 => rng.pick_str(corpus::ZINC_HAND).as_bytes().to_vec(),
                _ => {
                    let mut cfg = GenCfg::swarm(rng);
                    cfg.max_depth = cfg.max_depth.min(2);
                    cfg.max_rows = cfg.max_rows.min(3);
                    gen_zinc::gen_doc(rng, &cfg, None).text
                }
            },
            S::Json => {
                let base = match rng.below(3) {
                    0 => rng.pick_str(corpus::JSON_HAND).as_bytes().to_vec(),
                    _ => {
                        let mut cfg = JsonCfg::swarm(rng);
                        cfg.max_depth = cfg.max_depth.min(2);
                        gen_json::gen_doc(rng, &cfg)
                    }
                };
                // a quarter of the documents carry one member-level fault (a member repeated, moved,
                // or foreign): still JSON, and the C entry point must judge it as the Rust one does
                let variants = if base.len() <= 1500 && rng.chance(1, 4) { crate::mutate::json_member_variants(&base) } else { Vec::new() };
                if variants.is_empty() {
                    base
                } else {
                    let k = rng.below(variants.len() as u64) as usize;
                    variants[k].1.clone()
                }
            }
        })
    }

    fn num(&mut self, kind: N, container: Option<usize>) -> u64 {
        let rng = &mut *self.rng;
        let fault = rng.chance(self.w.p_fault, 1000);
        match kind {
            N::Bool => rng.below(2),
            N::F64 => {
                if rng.chance(2, 3) {
                    rng.pick(F64S).to_bits()
                } else {
                    ((rng.f64() - 0.5) * 10f64.powi(rng.range(0, 12) as i32 - 4)).to_bits()
                }
            }
            N::Hour => if fault { *rng.pick(&[24u64, 25, 99, u32::MAX as u64]) } else { rng.below(24) },
            N::Min | N::Sec => if fault { *rng.pick(&[60u64, 61, 100, u32::MAX as u64]) } else { rng.below(60) },
            N::Milli => if fault { *rng.pick(&[1000u64, 1999, 2000, u32::MAX as u64]) } else { rng.below(1000) },
            N::Year => {
                if fault {
                    *rng.pick(&[-1i64, 0, -9999, 262143, 262144, i32::MAX as i64, i32::MIN as i64]) as u64
                } else {
                    *rng.pick(&[1i64, 1582, 1900, 1970, 1999, 2000, 2020, 2021, 2024, 2038, 2100, 9999]) as u64
                }
            }
            N::Month => if fault { *rng.pick(&[0u64, 13, 99, u32::MAX as u64]) } else { rng.range(1, 12) as u64 },
            N::Day => if fault { *rng.pick(&[0u64, 32, 99, u32::MAX as u64]) } else { rng.range(1, 31) as u64 },
            N::Index => {
                let len = container
                    .and_then(|c| self.sim.vals[c].as_ref())
                    .map(|v| match v {
                        Value::List(l) => l.len(),
                        Value::Grid(g) => g.rows.len(),
                        _ => 0,
                    })
                    .unwrap_or(0) as u64;
                if fault || len == 0 {
                    *rng.pick(&[len, len + 1, usize::MAX as u64, usize::MAX as u64 - 1, 1u64 << 32, len.wrapping_sub(1)])
                } else {
                    rng.below(len)
                }
            }
        }
    }

    /// Draws one operation for `spec`; `None` when the pool cannot serve it.
    fn draw(&mut self, spec: &Spec) -> Option<Op> {
        let mut op = Op::new(self.t, spec.f);
        let mut container: Option<usize> = None;
        for a in spec.h {
            let idx: i64 = match a {
                A::NewVal => self.empty_val()? as i64,
                A::In(k) | A::Own(k) => {
                    let owned = matches!(a, A::Own(_));
                    let destroy = spec.f == "haystack_value_destroy";
                    if !destroy && self.rng.chance(self.w.p_null, 1000) {
                        -1
                    } else if !owned && self.rng.chance(self.w.p_borrow_arg, 1000) && (0..NB).any(|b| self.sim.borrows[b].is_some()) {
                        BORROW_BASE + self.rng.usize(NB) as i64
                    } else {
                        let right = self.live_of(*k);
                        let all = self.live_vals();
                        let pool = if right.is_empty() || (!destroy && self.rng.chance(self.w.p_fault, 1000)) { &all } else { &right };
                        if pool.is_empty() {
                            return None;
                        }
                        let i = *self.rng.pick(pool);
                        if container.is_none() {
                            container = Some(i);
                        }
                        i as i64
                    }
                }
                A::Out => {
                    if self.rng.chance(self.w.p_null, 1000) {
                        -1
                    } else {
                        let all = self.live_vals();
                        if all.is_empty() {
                            return None;
                        }
                        // prefer scratch handles (Null) but also overwrite handles that own heap data
                        let nulls = self.live_of(K::Null);
                        let pool = if !nulls.is_empty() && self.rng.chance(1, 2) { &nulls } else { &all };
                        *self.rng.pick(pool) as i64
                    }
                }
                A::NewStr => {
                    let e: Vec<usize> = (0..NS).filter(|i| self.sim.strs[*i].is_none()).collect();
                    if e.is_empty() {
                        return None;
                    }
                    *self.rng.pick(&e) as i64
                }
                A::LiveStr => {
                    let e: Vec<usize> = (0..NS).filter(|i| self.sim.strs[*i].is_some()).collect();
                    if e.is_empty() {
                        return None;
                    }
                    *self.rng.pick(&e) as i64
                }
                A::NewFilter => {
                    let e: Vec<usize> = (0..NF).filter(|i| self.sim.filters[*i].is_none()).collect();
                    if e.is_empty() {
                        return None;
                    }
                    *self.rng.pick(&e) as i64
                }
                A::InFilter => {
                    if self.rng.chance(self.w.p_null, 1000) {
                        -1
                    } else {
                        let e: Vec<usize> = (0..NF).filter(|i| self.sim.filters[*i].is_some()).collect();
                        if e.is_empty() {
                            return None;
                        }
                        *self.rng.pick(&e) as i64
                    }
                }
                A::BorrowOut => {
                    if self.rng.chance(self.w.p_null, 1000) {
                        -1
                    } else {
                        self.rng.usize(NB) as i64
                    }
                }
                A::LiveBorrow => {
                    let e: Vec<usize> = (0..NB).filter(|i| self.sim.borrows[*i].is_some()).collect();
                    if e.is_empty() {
                        return None;
                    }
                    *self.rng.pick(&e) as i64
                }
            };
            op.h.push(idx);
        }
        for nk in spec.n {
            let v = self.num(*nk, container);
            op.n.push(v);
        }
        for sk in spec.s {
            let mut t = self.text(*sk);
            if *sk == S::Key && t.is_some() && self.rng.chance(1, 2) {
                // an existing key of the dict argument
                if let Some(Value::Dict(d)) = container.and_then(|c| self.sim.vals[c].as_ref()) {
                    let keys: Vec<&String> = d.keys().collect();
                    if !keys.is_empty() {
                        t = Some(self.rng.pick(&keys).as_bytes().to_vec());
                    }
                }
            }
            op.s.push(t.map(|b| hex(&b)));
        }
        Some(op)
    }

    fn push(&mut self, op: Op) -> bool {
        let before = self.sim.calls;
        // a Rust operation that panics is exactly what the history should contain: keep the call
        let panicked = std::panic::catch_unwind(std::panic::AssertUnwindSafe(|| self.sim.step(&op))).is_err();
        if self.sim.calls == before && !panicked {
            return false; // the model skipped it: not part of the history
        }
        self.ops.push(op);
        true
    }

    fn run(mut self) -> Vec<Op> {
        let mut guard = 0;
        while self.ops.len() < self.w.len && guard < self.w.len * 20 {
            guard += 1;
            if self.w.threads > 1 && self.rng.chance(self.w.p_switch, 1000) {
                self.t = self.rng.usize(self.w.threads) as u8;
            }
            if self.w.threads > 1 && self.rng.chance(8, 1000) {
                self.ops.push(Op::new(self.t, "thread_exit"));
                self.sim.pending[self.t as usize] = false;
                continue;
            }
            let ci = self.rng.weighted(&self.w.cat);
            let specs: Vec<&Spec> = SPECS.iter().filter(|s| s.cat as usize == ci).collect();
            if specs.is_empty() {
                continue;
            }
            let spec = *self.rng.pick(&specs);
            let Some(mut op) = self.draw(spec) else { continue };
            op.t = self.t;
            if !self.push(op) {
                continue;
            }
            if self.sim.last_failed && self.rng.chance(self.w.p_take, 1000) {
                if let Some(spec) = spec_of("last_error_message") {
                    // usually on the thread that failed; sometimes first on another one (which must see nothing)
                    if self.w.threads > 1 && self.rng.chance(1, 4) {
                        let other = ((self.t as usize + 1 + self.rng.usize(self.w.threads - 1)) % self.w.threads) as u8;
                        if let Some(mut o) = self.draw(spec) {
                            o.t = other;
                            self.push(o);
                        }
                    }
                    if let Some(mut o) = self.draw(spec) {
                        o.t = self.t;
                        self.push(o);
                    }
                }
            }
            // a freshly borrowed pointer is usually read before the container changes
            if spec.cat == Cat::Entry && self.rng.chance(1, 2) {
                if let Some(o) = spec_of("borrow_read").and_then(|s| self.draw(s)) {
                    self.push(o);
                }
            }
        }
        self.ops
    }
}

pub fn gen_history(seed: u64) -> Vec<Op> {
    let rng = Rng::new(seed);
    let mut knobs = rng.fork("knobs");
    let mut wl = rng.fork("workload");
    let w = Weights::swarm(&mut knobs);
    Gen { rng: &mut wl, w, sim: Sim::new(false, Mode::Model), ops: Vec::new(), t: 0 }.run()
}

// -------------------------------------------------------------------------------------------------
// enumerated sweeps over a fixture with one handle of every kind

/// (kind, Zinc text) — slot i of the fixture holds the decoded text i
pub const FIXTURE: &[(K, &str)] = &[
    (K::List, "[1,\"a\",@r]"),
    (K::Dict, "{a:1 b:\"x\" site}"),
    (K::Grid, "ver:\"3.0\"\na,b\n1,\"x\"\n2,\"y\"\n"),
    (K::Number, "12.5kW"),
    (K::Str, "\"str\""),
    (K::Ref, "@r1 \"Dis\""),
    (K::DateTime, "2021-01-02T03:04:05.006-05:00 New_York"),
    (K::Date, "2021-03-04"),
    (K::Time, "12:34:56.789"),
    (K::Null, "N"),
    (K::Marker, "M"),
    (K::Na, "NA"),
    (K::Remove, "R"),
    (K::Bool, "T"),
    (K::Uri, "`http://x`"),
    (K::Symbol, "^sym"),
    (K::Coord, "C(1.5,-2.5)"),
    (K::XStr, "Bin(\"abc\")"),
    (K::Number, "42"),
    (K::Ref, "@r2"),
    (K::List, "[{a:1},{a:2 b:\"x\"}]"),
    (K::List, "[{},{}]"),
    (K::Dict, "{}"),
    (K::List, "[]"),
    (K::List, "[{a:1},N,\"s\",{b:2}]"),
    (K::Time, "23:59:60.5"),
    (K::DateTime, "2021-01-15T12:00:00Z London"),
    (K::Grid, "ver:\"2.0\" m:\"meta\"\nsite dis:\"Site col\",id,a,empty\nM,@r1,1,\nM,@r2,2,\n"),
];
const FIX_OUT: i64 = 28; // an initialised (Null) handle used as `result`
const FIX_NEW: i64 = 29; // empty slot for returned handles
const FIX_OUT_HEAP: i64 = 30; // a handle owning heap data, also used as `result`

pub fn fixture_ops() -> Vec<Op> {
    let mut ops = Vec::new();
    for (i, (_, text)) in FIXTURE.iter().enumerate() {
        ops.push(Op::new(0, "haystack_value_from_zinc_string").h(&[i as i64]).s(&[Some(text.as_bytes())]));
    }
    ops.push(Op::new(0, "haystack_value_init").h(&[FIX_OUT]));
    ops.push(Op::new(0, "haystack_value_from_zinc_string").h(&[FIX_OUT_HEAP]).s(&[Some(b"{old:\"contents that own heap memory\" l:[1,2,3]}")]));
    ops.push(Op::new(0, "haystack_filter_parse").h(&[0]).s(&[Some(b"site")]));
    ops.push(Op::new(0, "haystack_filter_parse").h(&[1]).s(&[Some(b"a")]));
    ops
}

fn fixture_slot(k: K) -> i64 {
    if k == K::Any {
        return 4;
    }
    FIXTURE.iter().position(|(fk, _)| *fk == k).map(|i| i as i64).unwrap_or(4)
}

fn default_n(k: N) -> u64 {
    match k {
        N::Bool => 1,
        N::F64 => 1.5f64.to_bits(),
        N::Hour => 12,
        N::Min => 34,
        N::Sec => 56,
        N::Milli => 789,
        N::Year => 2021,
        N::Month => 3,
        N::Day => 4,
        N::Index => 0,
    }
}

fn default_s(k: S) -> &'static [u8] {
    match k {
        S::Text => b"abc",
        S::Unit => b"kW",
        S::Zone => b"New_York",
        S::Key => b"a",
        S::Zinc => b"[1,2]",
        S::Json => b"{\"a\":1}",
        S::FilterText => b"site and a == 1",
    }
}

/// The valid default call of `spec` against the fixture.
pub fn default_op(spec: &Spec, out_slot: i64) -> Op {
    let mut op = Op::new(0, spec.f);
    for a in spec.h {
        op.h.push(match a {
            A::NewVal => FIX_NEW,
            A::In(k) | A::Own(k) => fixture_slot(*k),
            A::Out => out_slot,
            A::NewStr => 0,
            A::LiveStr => 0,
            A::NewFilter => 2,
            A::InFilter => 0,
            A::BorrowOut => 0,
            A::LiveBorrow => 0,
        });
    }
    op.n = spec.n.iter().map(|k| default_n(*k)).collect();
    op.s = spec.s.iter().map(|k| Some(hex(default_s(*k)))).collect();
    op
}

/// what the caller does after the call under test: take the error (twice: the second take must
/// see nothing), read the result handle back, release
fn epilogue(ops: &mut Vec<Op>) {
    ops.push(Op::new(0, "last_error_message").h(&[1]));
    ops.push(Op::new(0, "last_error_message").h(&[2]));
    ops.push(Op::new(0, "haystack_value_to_zinc_string").h(&[FIX_OUT, 3]));
    ops.push(Op::new(0, "borrow_read").h(&[0]));
}

fn sweep_case(prop: &str, name: &str, detail: String, call: Vec<Op>) -> Case {
    let mut ops = fixture_ops();
    ops.extend(call);
    epilogue(&mut ops);
    history_case(prop, ops, format!("{name} {detail}"))
}

pub fn history_case(prop: &str, ops: Vec<Op>, origin: String) -> Case {
    let mut c = Case::new(prop, "capi-history", b"");
    c.extra.insert("ops".into(), serde_json::to_value(&ops).unwrap());
    c.origin = origin;
    c
}

fn pointer_params(spec: &Spec) -> Vec<(char, usize)> {
    let mut v = Vec::new();
    for (i, a) in spec.h.iter().enumerate() {
        if matches!(a, A::In(_) | A::Own(_) | A::Out | A::InFilter | A::BorrowOut) {
            v.push(('h', i));
        }
    }
    for i in 0..spec.s.len() {
        v.push(('s', i));
    }
    v
}

pub fn sweep_null(prop: &str) -> Vec<Case> {
    let mut cases = Vec::new();
    for spec in SPECS {
        if matches!(spec.f, "haystack_value_destroy" | "haystack_string_destroy" | "borrow_read") {
            continue; // the two destroy functions are excluded by the property
        }
        let params = pointer_params(spec);
        // every single pointer parameter null, every pair, and all of them
        let mut subsets: Vec<Vec<(char, usize)>> = params.iter().map(|p| vec![*p]).collect();
        for i in 0..params.len() {
            for j in i + 1..params.len() {
                subsets.push(vec![params[i], params[j]]);
            }
        }
        if params.len() > 2 {
            subsets.push(params.clone());
        }
        for subset in subsets {
            for out in [FIX_OUT, FIX_OUT_HEAP] {
                if out == FIX_OUT_HEAP && !spec.h.contains(&A::Out) {
                    continue;
                }
                // a null pointer together with each other kind of bad argument the call can have: an
                // index out of range, the filter that matches nothing / everything
                let mut variants: Vec<(String, Vec<u64>, Option<i64>)> = vec![("".into(), spec.n.iter().map(|k| default_n(*k)).collect(), None)];
                if spec.n.contains(&N::Index) {
                    for bad in [3u64, 99, usize::MAX as u64] {
                        variants.push((format!(" index={bad}"), spec.n.iter().map(|k| if *k == N::Index { bad } else { default_n(*k) }).collect(), None));
                    }
                }
                if spec.h.contains(&A::InFilter) {
                    variants.push((" filter=matches-every-row".into(), spec.n.iter().map(|k| default_n(*k)).collect(), Some(1)));
                }
                for (vname, nums, filter_slot) in variants {
                    let mut op = default_op(spec, out);
                    op.n = nums;
                    if let (Some(fs), Some(p)) = (filter_slot, spec.h.iter().position(|a| *a == A::InFilter)) {
                        op.h[p] = fs;
                    }
                    for (kind, i) in &subset {
                        if *kind == 'h' {
                            op.h[*i] = -1;
                        } else {
                            op.s[*i] = None;
                        }
                    }
                    cases.push(sweep_case(prop, "sweep:null", format!("{} null={:?} out={out}{vname}", spec.f, subset), vec![op]));
                }
            }
        }
    }
    cases
}

pub fn sweep_kind(prop: &str) -> Vec<Case> {
    let mut cases = Vec::new();
    for spec in SPECS {
        if matches!(spec.f, "haystack_value_destroy" | "borrow_read") {
            continue;
        }
        for (pi, a) in spec.h.iter().enumerate() {
            if !matches!(a, A::In(_) | A::Own(_)) {
                continue;
            }
            for slot in 0..FIXTURE.len() as i64 {
                for out in [FIX_OUT, FIX_OUT_HEAP] {
                    if out == FIX_OUT_HEAP && !spec.h.contains(&A::Out) {
                        continue;
                    }
                    let mut op = default_op(spec, out);
                    op.h[pi] = slot;
                    // the same call twice: the second sees whatever the first left behind
                    let mut again = op.clone();
                    for (i, a2) in spec.h.iter().enumerate() {
                        match a2 {
                            A::NewVal => again.h[i] = FIX_NEW + 100, // no second constructor (slot out of range => skipped)
                            A::NewStr => again.h[i] = 1,
                            A::NewFilter => again.h[i] = 100,
                            _ => {}
                        }
                    }
                    cases.push(sweep_case(prop, "sweep:kind", format!("{} param{}=slot{}({:?}) out={out}", spec.f, pi, slot, FIXTURE[slot as usize].0), vec![op, again]));
                }
            }
        }
    }
    cases
}

pub fn sweep_index(prop: &str) -> Vec<Case> {
    let mut cases = Vec::new();
    let idxs: &[u64] = &[0, 1, 2, 3, 4, usize::MAX as u64, usize::MAX as u64 - 1, 1 << 32, (1 << 63) - 1, 1 << 63];
    for f in ["haystack_value_get_list_entry_at", "haystack_value_set_list_entry_at", "haystack_value_remove_list_entry_at", "haystack_value_get_grid_row_at"] {
        let spec = spec_of(f).unwrap();
        for &i1 in idxs {
            for &i2 in idxs {
                // two consecutive calls on the same container: remove then access, set then read
                for g in ["haystack_value_get_list_entry_at", "haystack_value_remove_list_entry_at", "haystack_value_set_list_entry_at", "haystack_value_get_grid_row_at"] {
                    if (f.contains("grid")) != (g.contains("grid")) {
                        continue;
                    }
                    let mut a = default_op(spec, FIX_OUT);
                    a.n = vec![i1];
                    let mut b = default_op(spec_of(g).unwrap(), FIX_OUT_HEAP);
                    b.n = vec![i2];
                    if let Some(p) = spec_of(g).unwrap().h.iter().position(|x| *x == A::BorrowOut) {
                        b.h[p] = 1;
                    }
                    let rd = Op::new(0, "borrow_read").h(&[1]);
                    cases.push(sweep_case(prop, "sweep:index", format!("{f}@{i1} then {g}@{i2}"), vec![a, b, rd]));
                }
            }
        }
    }
    cases
}

/// Error-slot scenarios: failing calls and takes distributed over caller threads in every order.
pub fn sweep_errslot(prop: &str) -> Vec<Case> {
    let fails: Vec<Op> = vec![
        Op::new(0, "haystack_value_get_list_len").h(&[4]),
        Op::new(0, "haystack_value_remove_list_entry_at").h(&[0]).n(&[99]),
        Op::new(0, "haystack_value_make_number_with_unit").h(&[FIX_NEW]).n(&[1.0f64.to_bits()]).s(&[Some(b"nope")]),
        Op::new(0, "haystack_value_from_zinc_string").h(&[FIX_NEW]).s(&[Some(b"[1,")]),
        Op::new(0, "haystack_value_from_json_string").h(&[FIX_NEW]).s(&[Some(b"{\"_kind\":\"a\\u0000b\"}")]),
        Op::new(0, "haystack_filter_parse").h(&[2]).s(&[Some(b"a and")]),
        Op::new(0, "haystack_value_make_str").h(&[FIX_NEW]).s(&[None]),
        Op::new(0, "haystack_value_make_date").h(&[FIX_NEW]).n(&[2021, 13, 1]),
        Op::new(0, "haystack_value_get_str_value").h(&[-1, 3]),
    ];
    let ok = Op::new(0, "haystack_value_get_list_len").h(&[0]);
    let mut cases = Vec::new();
    let on = |mut o: Op, t: u8| {
        o.t = t;
        o
    };
    for (i, f1) in fails.iter().enumerate() {
        for (j, f2) in fails.iter().enumerate() {
            if i == j {
                continue;
            }
            let take = |t: u8, slot: i64| Op::new(t, "last_error_message").h(&[slot]);
            // two failures on one thread, one take: the message is the later one's
            cases.push(sweep_case(prop, "sweep:errslot", format!("same-thread {}>{}", f1.f, f2.f), vec![f1.clone(), f2.clone(), take(0, 1), take(0, 2)]));
            // failure, success, take: the success must not clear or replace it
            cases.push(sweep_case(prop, "sweep:errslot", format!("fail-ok-take {}", f1.f), vec![f1.clone(), ok.clone(), take(0, 1), take(0, 2)]));
            // failures on two threads; takes in both orders; a third thread sees nothing
            for order in 0..2u8 {
                let (a, b) = if order == 0 { (1u8, 2u8) } else { (2u8, 1u8) };
                cases.push(sweep_case(
                    prop,
                    "sweep:errslot",
                    format!("two-threads {}@1 {}@2 take-order={order}", f1.f, f2.f),
                    vec![on(f1.clone(), 1), on(f2.clone(), 2), take(3, 1), take(a, 2), Op::new(0, "haystack_string_destroy").h(&[2]), take(b, 2), Op::new(0, "haystack_string_destroy").h(&[2]), take(a, 2)],
                ));
            }
            // the failing thread exits with its error untaken; its replacement starts clean
            cases.push(sweep_case(prop, "sweep:errslot", format!("exit-untaken {}", f1.f), vec![on(f1.clone(), 1), Op::new(1, "thread_exit"), take(1, 1), on(f2.clone(), 1), take(1, 2)]));
        }
    }
    cases
}

/// Borrowed entry pointers, one and two levels deep, used as entry arguments of every mutating
/// call on their own root container and on another container, then read back where still valid.
pub fn sweep_borrow(prop: &str) -> Vec<Case> {
    let setup = || -> Vec<Op> {
        vec![
            Op::new(0, "haystack_value_from_zinc_string").h(&[0]).s(&[Some(b"[[10,[20,30,40],\"x\"],{a:[4,5] b:{c:1}},7,[[1],[2,3]]]")]),
            Op::new(0, "haystack_value_from_zinc_string").h(&[1]).s(&[Some(b"{k:[1,[2]] m:{n:[3]} s:\"str\"}")]),
            Op::new(0, "haystack_value_make_list").h(&[2]),
            Op::new(0, "haystack_value_init").h(&[3]),
        ]
    };
    // first level borrow into slot 0 (list) or slot 1 (dict)
    let mut firsts: Vec<(String, Op)> = Vec::new();
    for i in 0..4u64 {
        firsts.push((format!("list[{i}]"), Op::new(0, "haystack_value_get_list_entry_at").h(&[0, 0]).n(&[i])));
    }
    for k in ["k", "m", "s"] {
        firsts.push((format!("dict.{k}"), Op::new(0, "haystack_value_get_dict_entry").h(&[1, 0]).s(&[Some(k.as_bytes())])));
    }
    // second level through the first borrow (skipped by the simulator when the kinds do not fit)
    let mut seconds: Vec<(String, Option<Op>)> = vec![("-".into(), None)];
    for j in 0..3u64 {
        seconds.push((format!("[{j}]"), Some(Op::new(0, "haystack_value_get_list_entry_at").h(&[BORROW_BASE, 1]).n(&[j]))));
    }
    for k in ["a", "b", "n"] {
        seconds.push((format!(".{k}"), Some(Op::new(0, "haystack_value_get_dict_entry").h(&[BORROW_BASE, 1]).s(&[Some(k.as_bytes())]))));
    }
    let mut cases = Vec::new();
    for (fname, first) in &firsts {
        for (sname, second) in &seconds {
            for which in [BORROW_BASE, BORROW_BASE + 1] {
                let uses: Vec<(String, Op)> = vec![
                    ("set root[0]".into(), Op::new(0, "haystack_value_set_list_entry_at").h(&[0, which]).n(&[0])),
                    ("set root[1]".into(), Op::new(0, "haystack_value_set_list_entry_at").h(&[0, which]).n(&[1])),
                    ("set root[3]".into(), Op::new(0, "haystack_value_set_list_entry_at").h(&[0, which]).n(&[3])),
                    ("push root".into(), Op::new(0, "haystack_value_push_list_entry").h(&[0, which])),
                    ("insert dict.k".into(), Op::new(0, "haystack_value_insert_dict_entry").h(&[1, which]).s(&[Some(b"k")])),
                    ("insert dict.m".into(), Op::new(0, "haystack_value_insert_dict_entry").h(&[1, which]).s(&[Some(b"m")])),
                    ("insert dict.new".into(), Op::new(0, "haystack_value_insert_dict_entry").h(&[1, which]).s(&[Some(b"new")])),
                    ("push other".into(), Op::new(0, "haystack_value_push_list_entry").h(&[2, which])),
                    ("grid rows".into(), Op::new(0, "haystack_value_make_grid_from_rows").h(&[4, which])),
                    ("to zinc".into(), Op::new(0, "haystack_value_to_zinc_string").h(&[which, 0])),
                    ("keys into root".into(), Op::new(0, "haystack_value_get_dict_keys").h(&[which, 0])),
                ];
                for (uname, use_op) in uses {
                    let mut ops = setup();
                    ops.push(first.clone());
                    if let Some(s2) = second {
                        ops.push(s2.clone());
                    }
                    ops.push(Op::new(0, "borrow_read").h(&[which - BORROW_BASE]));
                    ops.push(use_op);
                    // whatever is still valid is read again; the containers are encoded
                    ops.push(Op::new(0, "borrow_read").h(&[0]));
                    ops.push(Op::new(0, "borrow_read").h(&[1]));
                    ops.push(Op::new(0, "haystack_value_to_zinc_string").h(&[0, 1]));
                    ops.push(Op::new(0, "haystack_value_to_json_string").h(&[1, 2]));
                    ops.push(Op::new(0, "last_error_message").h(&[3]));
                    cases.push(history_case(prop, ops, format!("sweep:borrow {fname}{sname} use=b{} {uname}", which - BORROW_BASE)));
                }
            }
        }
    }
    cases
}

/// The same handle given for two parameters of one call (container and entry, subject and result,
/// rows and meta): legal for a C caller, and whatever the call reads must be read before it writes.
pub fn sweep_alias(prop: &str) -> Vec<Case> {
    let mut cases = Vec::new();
    for spec in SPECS {
        let hp: Vec<usize> = spec.h.iter().enumerate().filter(|(_, a)| matches!(a, A::In(_) | A::Own(_) | A::Out)).map(|(i, _)| i).collect();
        if hp.len() < 2 {
            continue;
        }
        for i in 0..hp.len() {
            for j in i + 1..hp.len() {
                // the shared handle has the kind the first of the two parameters wants (for an
                // out-parameter: the kind of the other one)
                let kind = match (spec.h[hp[i]], spec.h[hp[j]]) {
                    (A::In(k), _) | (A::Own(k), _) => k,
                    (_, A::In(k)) | (_, A::Own(k)) => k,
                    _ => K::Any,
                };
                for slot in (0..FIXTURE.len() as i64).filter(|s| kind == K::Any || FIXTURE[*s as usize].0 == kind) {
                    for filter_slot in [0i64, 1] {
                        if filter_slot == 1 && !spec.h.contains(&A::InFilter) {
                            continue;
                        }
                        let mut op = default_op(spec, FIX_OUT);
                        op.h[hp[i]] = slot;
                        op.h[hp[j]] = slot;
                        if let Some(p) = spec.h.iter().position(|a| *a == A::InFilter) {
                            op.h[p] = filter_slot;
                        }
                        // the aliased handle is used again afterwards: encoded, and as an entry of a new list
                        let after = vec![
                            Op::new(0, "haystack_value_to_zinc_string").h(&[slot, 1]),
                            Op::new(0, "haystack_value_make_list").h(&[31]),
                            Op::new(0, "haystack_value_push_list_entry").h(&[31, slot]),
                        ];
                        let mut call = vec![op];
                        call.extend(after);
                        cases.push(sweep_case(prop, "sweep:alias", format!("{} params {} and {} = slot{slot} filter={filter_slot}", spec.f, hp[i], hp[j]), call));
                    }
                }
            }
        }
    }
    cases
}

/// Pairs of values that compare equal (`==`) but are not identical (0 and -0, a Ref with another
/// display name, the same inside a list / dict / grid), stored one over the other through every
/// entry-updating call: an update must store what it was given, not what compares equal to it.
pub fn sweep_equalish(prop: &str) -> Vec<Case> {
    let pairs: &[(&str, &str)] = &[
        ("0", "-0"),
        ("-0", "0"),
        ("@r1 \"Old name\"", "@r1 \"New name\""),
        ("@r1", "@r1 \"Named\""),
        ("@r1 \"Named\"", "@r1"),
        ("[@r1 \"a\", 0]", "[@r1 \"b\", -0]"),
        ("{x:@r1 \"a\" y:0}", "{x:@r1 \"b\" y:-0}"),
        ("ver:\"3.0\"\nid,v\n@r1 \"a\",0\n", "ver:\"3.0\"\nid,v\n@r1 \"b\",-0\n"),
        ("ver:\"3.0\"\na\n1\n", "ver:\"2.0\"\na\n1\n"),
    ];
    let mut cases = Vec::new();
    for (a, b) in pairs {
        for variant in 0..5 {
            let mut ops = vec![
                Op::new(0, "haystack_value_from_zinc_string").h(&[0]).s(&[Some(a.as_bytes())]),
                Op::new(0, "haystack_value_from_zinc_string").h(&[1]).s(&[Some(b.as_bytes())]),
                Op::new(0, "haystack_value_make_dict").h(&[2]),
                Op::new(0, "haystack_value_make_list").h(&[3]),
                Op::new(0, "haystack_value_init").h(&[4]),
            ];
            match variant {
                0 => {
                    ops.push(Op::new(0, "haystack_value_insert_dict_entry").h(&[2, 0]).s(&[Some(b"k")]));
                    ops.push(Op::new(0, "haystack_value_insert_dict_entry").h(&[2, 1]).s(&[Some(b"k")]));
                    ops.push(Op::new(0, "haystack_value_insert_dict_entry").h(&[2, 0]).s(&[Some(b"k")]));
                    ops.push(Op::new(0, "haystack_value_get_dict_entry").h(&[2, 0]).s(&[Some(b"k")]));
                    ops.push(Op::new(0, "borrow_read").h(&[0]));
                }
                1 => {
                    ops.push(Op::new(0, "haystack_value_push_list_entry").h(&[3, 0]));
                    ops.push(Op::new(0, "haystack_value_set_list_entry_at").h(&[3, 1]).n(&[0]));
                    ops.push(Op::new(0, "haystack_value_get_list_entry_at").h(&[3, 0]).n(&[0]));
                    ops.push(Op::new(0, "borrow_read").h(&[0]));
                    ops.push(Op::new(0, "haystack_value_set_list_entry_at").h(&[3, 0]).n(&[0]));
                }
                2 => {
                    // an entry replaced by a borrowed equal entry of another container
                    ops.push(Op::new(0, "haystack_value_push_list_entry").h(&[3, 1]));
                    ops.push(Op::new(0, "haystack_value_insert_dict_entry").h(&[2, 0]).s(&[Some(b"k")]));
                    ops.push(Op::new(0, "haystack_value_get_list_entry_at").h(&[3, 0]).n(&[0]));
                    ops.push(Op::new(0, "haystack_value_insert_dict_entry").h(&[2, BORROW_BASE]).s(&[Some(b"k")]));
                }
                3 => {
                    // as rows and meta of a grid, and as the result handle of accessors
                    ops.push(Op::new(0, "haystack_value_insert_dict_entry").h(&[2, 0]).s(&[Some(b"v")]));
                    ops.push(Op::new(0, "haystack_value_push_list_entry").h(&[3, 2]));
                    ops.push(Op::new(0, "haystack_value_insert_dict_entry").h(&[2, 1]).s(&[Some(b"v")]));
                    ops.push(Op::new(0, "haystack_value_push_list_entry").h(&[3, 2]));
                    ops.push(Op::new(0, "haystack_value_make_grid_from_rows_with_meta").h(&[5, 3, 2]));
                    ops.push(Op::new(0, "haystack_value_get_grid_row_at").h(&[5, 4]).n(&[0]));
                    ops.push(Op::new(0, "haystack_value_get_grid_row_at").h(&[5, 4]).n(&[1]));
                    ops.push(Op::new(0, "haystack_value_to_zinc_string").h(&[5, 0]));
                }
                _ => {
                    // result handles that hold the equal value already
                    ops.push(Op::new(0, "haystack_value_insert_dict_entry").h(&[2, 0]).s(&[Some(b"k")]));
                    ops.push(Op::new(0, "haystack_value_get_dict_keys").h(&[2, 1]));
                    ops.push(Op::new(0, "haystack_value_push_list_entry").h(&[3, 2]));
                    ops.push(Op::new(0, "haystack_value_make_grid_from_rows").h(&[5, 3]));
                    ops.push(Op::new(0, "haystack_value_get_grid_row_at").h(&[5, 2]).n(&[0]));
                }
            }
            ops.push(Op::new(0, "haystack_value_to_zinc_string").h(&[2, 1]));
            ops.push(Op::new(0, "haystack_value_to_json_string").h(&[3, 2]));
            ops.push(Op::new(0, "last_error_message").h(&[3]));
            cases.push(history_case(prop, ops, format!("sweep:equalish {a} / {b} variant={variant}")));
        }
    }
    cases
}

/// Lists and dicts grown to every size around the points where their storage is reallocated or
/// split (Vec capacities 4, 8, 16, 32, 64; B-tree nodes of 11 keys), then every entry operation
/// at the edges of that size, including a borrowed entry of the container given back to it.
pub fn sweep_size(prop: &str) -> Vec<Case> {
    let mut cases = Vec::new();
    for n in [0usize, 1, 2, 3, 4, 5, 7, 8, 9, 15, 16, 17, 31, 32, 33, 63, 64, 65] {
        for variant in 0..7 {
            let mut ops = vec![Op::new(0, "haystack_value_make_list").h(&[0]), Op::new(0, "haystack_value_make_dict").h(&[1]), Op::new(0, "haystack_value_init").h(&[3])];
            for i in 0..n {
                ops.push(Op::new(0, "haystack_value_make_number").h(&[2]).n(&[(i as f64).to_bits()]));
                ops.push(Op::new(0, "haystack_value_push_list_entry").h(&[0, 2]));
                let key = format!("k{i:02}");
                ops.push(Op::new(0, "haystack_value_insert_dict_entry").h(&[1, 2]).s(&[Some(key.as_bytes())]));
                ops.push(Op::new(0, "haystack_value_destroy").h(&[2]));
            }
            let last = n.saturating_sub(1) as u64;
            ops.push(Op::new(0, "haystack_value_get_list_len").h(&[0]));
            ops.push(Op::new(0, "haystack_value_get_dict_len").h(&[1]));
            match variant {
                0 => {
                    // an entry of the full list pushed onto the same list, then read back
                    ops.push(Op::new(0, "haystack_value_get_list_entry_at").h(&[0, 0]).n(&[0]));
                    ops.push(Op::new(0, "haystack_value_push_list_entry").h(&[0, BORROW_BASE]));
                    ops.push(Op::new(0, "haystack_value_get_list_entry_at").h(&[0, 1]).n(&[n as u64]));
                    ops.push(Op::new(0, "borrow_read").h(&[1]));
                }
                1 => {
                    ops.push(Op::new(0, "haystack_value_get_list_entry_at").h(&[0, 0]).n(&[last]));
                    ops.push(Op::new(0, "haystack_value_set_list_entry_at").h(&[0, BORROW_BASE]).n(&[0]));
                    ops.push(Op::new(0, "haystack_value_remove_list_entry_at").h(&[0]).n(&[last]));
                    ops.push(Op::new(0, "haystack_value_remove_list_entry_at").h(&[0]).n(&[last]));
                }
                2 => {
                    // a dict entry inserted again under a new key, under its own key, removed
                    let key = format!("k{:02}", last);
                    ops.push(Op::new(0, "haystack_value_get_dict_entry").h(&[1, 0]).s(&[Some(key.as_bytes())]));
                    ops.push(Op::new(0, "haystack_value_insert_dict_entry").h(&[1, BORROW_BASE]).s(&[Some(b"zz")]));
                    ops.push(Op::new(0, "haystack_value_get_dict_entry").h(&[1, 1]).s(&[Some(key.as_bytes())]));
                    ops.push(Op::new(0, "haystack_value_insert_dict_entry").h(&[1, BORROW_BASE + 1]).s(&[Some(key.as_bytes())]));
                    ops.push(Op::new(0, "haystack_value_remove_dict_entry").h(&[1]).s(&[Some(key.as_bytes())]));
                    ops.push(Op::new(0, "haystack_value_remove_dict_entry").h(&[1]).s(&[Some(key.as_bytes())]));
                }
                3 => {
                    ops.push(Op::new(0, "haystack_value_get_dict_keys").h(&[1, 3]));
                    ops.push(Op::new(0, "haystack_value_get_list_len").h(&[3]));
                    ops.push(Op::new(0, "haystack_value_get_list_entry_at").h(&[3, 0]).n(&[last]));
                    ops.push(Op::new(0, "haystack_value_push_list_entry").h(&[3, BORROW_BASE]));
                    ops.push(Op::new(0, "haystack_value_push_list_entry").h(&[3, 0]));
                }
                6 => {
                    // grown, then drained to every fraction of its size without asking for the length
                    // in between; then an entry is borrowed and only read-only calls follow: none of
                    // them may move the entries
                    ops.truncate(ops.len() - 2);
                    let keep = [n / 4, (n / 4).saturating_sub(1), n / 8, 1][(n % 4) as usize].min(n);
                    for _ in keep..n {
                        ops.push(Op::new(0, "haystack_value_remove_list_entry_at").h(&[0]).n(&[0]));
                    }
                    for i in keep..n {
                        let key = format!("k{i:02}");
                        ops.push(Op::new(0, "haystack_value_remove_dict_entry").h(&[1]).s(&[Some(key.as_bytes())]));
                    }
                    ops.push(Op::new(0, "haystack_value_get_list_entry_at").h(&[0, 0]).n(&[0]));
                    ops.push(Op::new(0, "haystack_value_get_dict_entry").h(&[1, 1]).s(&[Some(b"k00")]));
                    for f in ["haystack_value_get_list_len", "haystack_value_is_list", "haystack_value_get_dict_len", "haystack_value_is_dict"] {
                        ops.push(Op::new(0, f).h(&[0]));
                        ops.push(Op::new(0, f).h(&[1]));
                        ops.push(Op::new(0, "borrow_read").h(&[0]));
                        ops.push(Op::new(0, "borrow_read").h(&[1]));
                    }
                    ops.push(Op::new(0, "haystack_value_get_dict_keys").h(&[1, 3]));
                    ops.push(Op::new(0, "haystack_value_to_zinc_string").h(&[0, 0]));
                    ops.push(Op::new(0, "haystack_value_to_json_string").h(&[1, 1]));
                    ops.push(Op::new(0, "haystack_string_destroy").h(&[0]));
                    ops.push(Op::new(0, "haystack_string_destroy").h(&[1]));
                    ops.push(Op::new(0, "haystack_value_get_list_entry_at").h(&[0, 2]).n(&[0]));
                    ops.push(Op::new(0, "borrow_read").h(&[0]));
                    ops.push(Op::new(0, "borrow_read").h(&[1]));
                }
                4 => {
                    // the containers put into each other and encoded
                    ops.push(Op::new(0, "haystack_value_push_list_entry").h(&[0, 1]));
                    ops.push(Op::new(0, "haystack_value_insert_dict_entry").h(&[1, 0]).s(&[Some(b"list")]));
                    ops.push(Op::new(0, "haystack_value_push_list_entry").h(&[0, 0]));
                }
                _ => {
                    // rows of a grid: the list of n numbers is no row list; a list of n dicts is
                    ops.push(Op::new(0, "haystack_value_make_grid_from_rows").h(&[4, 0]));
                    ops.push(Op::new(0, "haystack_value_make_list").h(&[5]));
                    for _ in 0..n.min(9) {
                        ops.push(Op::new(0, "haystack_value_push_list_entry").h(&[5, 1]));
                    }
                    ops.push(Op::new(0, "haystack_value_make_grid_from_rows_with_meta").h(&[6, 5, 1]));
                    ops.push(Op::new(0, "haystack_value_get_grid_len").h(&[6]));
                    ops.push(Op::new(0, "haystack_value_get_grid_row_at").h(&[6, 3]).n(&[n.min(9).saturating_sub(1) as u64]));
                    ops.push(Op::new(0, "haystack_value_get_grid_row_at").h(&[6, 3]).n(&[n.min(9) as u64]));
                    ops.push(Op::new(0, "haystack_value_to_zinc_string").h(&[6, 2]));
                }
            }
            ops.push(Op::new(0, "haystack_value_to_zinc_string").h(&[0, 0]));
            ops.push(Op::new(0, "haystack_value_to_json_string").h(&[1, 1]));
            ops.push(Op::new(0, "last_error_message").h(&[3]));
            cases.push(history_case(prop, ops, format!("sweep:size n={n} variant={variant}")));
        }
    }
    cases
}

/// Hostile text (NUL, empty, non-ASCII, astral, quotes, very long) in every string-bearing
/// position of every kind, brought in through the Hayson decoder (the constructors cannot carry
/// NUL), then every string getter, both encoders and the container accessors on it.
pub fn sweep_hostile(prop: &str) -> Vec<Case> {
    let long: String = "é".repeat(150);
    let contents: Vec<String> = vec!["a\\u0000b".into(), "\\u0000".into(), "".into(), "é".into(), "\\ud83d\\ude00".into(), " ".into(), "a b".into(), "\\\"".into(), "\\\\".into(), "\\n".into(), "a,b".into(), "x:y".into(), long];
    let positions: Vec<(&str, Box<dyn Fn(&str) -> String>)> = vec![
        ("str", Box::new(|c| format!("\"{c}\""))),
        ("ref-val", Box::new(|c| format!("{{\"_kind\":\"ref\",\"val\":\"{c}\"}}"))),
        ("ref-dis", Box::new(|c| format!("{{\"_kind\":\"ref\",\"val\":\"r1\",\"dis\":\"{c}\"}}"))),
        ("symbol", Box::new(|c| format!("{{\"_kind\":\"symbol\",\"val\":\"{c}\"}}"))),
        ("uri", Box::new(|c| format!("{{\"_kind\":\"uri\",\"val\":\"{c}\"}}"))),
        ("xstr-type", Box::new(|c| format!("{{\"_kind\":\"xstr\",\"type\":\"{c}\",\"val\":\"v\"}}"))),
        ("xstr-val", Box::new(|c| format!("{{\"_kind\":\"xstr\",\"type\":\"Bin\",\"val\":\"{c}\"}}"))),
        ("dict-key", Box::new(|c| format!("{{\"{c}\":1,\"b\":\"x\"}}"))),
        ("nested-key", Box::new(|c| format!("{{\"a\":{{\"{c}\":{{\"_kind\":\"marker\"}}}}}}"))),
        ("list-of", Box::new(|c| format!("[\"{c}\",{{\"_kind\":\"ref\",\"val\":\"{c}\"}},{{\"{c}\":2}}]"))),
        ("col-name", Box::new(|c| format!("{{\"_kind\":\"grid\",\"meta\":{{\"ver\":\"3.0\"}},\"cols\":[{{\"name\":\"{c}\"}},{{\"name\":\"b\"}}],\"rows\":[{{\"{c}\":1,\"b\":2}}]}}"))),
        ("grid-meta", Box::new(|c| format!("{{\"_kind\":\"grid\",\"meta\":{{\"ver\":\"3.0\",\"{c}\":\"{c}\"}},\"cols\":[{{\"name\":\"a\",\"meta\":{{\"{c}\":\"m\"}}}}],\"rows\":[{{\"a\":\"{c}\"}}]}}"))),
        ("unit", Box::new(|c| format!("{{\"_kind\":\"number\",\"val\":1,\"unit\":\"{c}\"}}"))),
        ("tz", Box::new(|c| format!("{{\"_kind\":\"dateTime\",\"val\":\"2021-01-02T03:04:05Z\",\"tz\":\"{c}\"}}"))),
    ];
    let getters = [
        "haystack_value_get_str_value", "haystack_value_get_ref_value", "haystack_value_get_ref_dis", "haystack_value_get_symbol_value", "haystack_value_get_uri_value",
        "haystack_value_get_xstr_type", "haystack_value_get_xstr_value", "haystack_value_get_number_unit", "haystack_value_get_datetime_timezone",
        "haystack_value_to_zinc_string", "haystack_value_to_json_string",
    ];
    let mut cases = Vec::new();
    for (pname, mk) in &positions {
        for (ci, c) in contents.iter().enumerate() {
            let doc = mk(c);
            let mut ops = vec![
                Op::new(0, "haystack_value_from_json_string").h(&[0]).s(&[Some(doc.as_bytes())]),
                Op::new(0, "last_error_message").h(&[0]),
                Op::new(0, "haystack_string_destroy").h(&[0]),
                Op::new(0, "haystack_value_init").h(&[1]),
                Op::new(0, "haystack_value_make_list").h(&[2]),
                Op::new(0, "haystack_value_make_dict").h(&[3]),
            ];
            for g in getters {
                ops.push(Op::new(0, g).h(&[0, 0]));
                ops.push(Op::new(0, "haystack_string_destroy").h(&[0]));
                ops.push(Op::new(0, "last_error_message").h(&[1]));
                ops.push(Op::new(0, "haystack_string_destroy").h(&[1]));
            }
            // containers: keys listing, entries, rows; the value as an entry of other containers
            ops.push(Op::new(0, "haystack_value_get_dict_keys").h(&[0, 1]));
            ops.push(Op::new(0, "haystack_value_to_zinc_string").h(&[1, 0]));
            ops.push(Op::new(0, "haystack_string_destroy").h(&[0]));
            ops.push(Op::new(0, "haystack_value_get_grid_row_at").h(&[0, 1]).n(&[0]));
            ops.push(Op::new(0, "haystack_value_to_zinc_string").h(&[1, 0]));
            ops.push(Op::new(0, "haystack_string_destroy").h(&[0]));
            ops.push(Op::new(0, "haystack_value_get_list_entry_at").h(&[0, 0]).n(&[1]));
            ops.push(Op::new(0, "haystack_value_to_zinc_string").h(&[BORROW_BASE, 0]));
            ops.push(Op::new(0, "haystack_string_destroy").h(&[0]));
            ops.push(Op::new(0, "haystack_value_push_list_entry").h(&[2, 0]));
            ops.push(Op::new(0, "haystack_value_insert_dict_entry").h(&[3, 0]).s(&[Some(b"k")]));
            ops.push(Op::new(0, "haystack_value_to_zinc_string").h(&[2, 0]));
            ops.push(Op::new(0, "haystack_value_to_json_string").h(&[3, 1]));
            ops.push(Op::new(0, "last_error_message").h(&[2]));
            cases.push(history_case(prop, ops, format!("sweep:hostile {pname} content#{ci}")));
        }
    }
    cases
}

/// Text whose multi-byte characters straddle every byte offset up to 136, in every text parameter
/// of every function: whatever cuts, pads or echoes caller text at a byte count (an excerpt in an
/// error message, an inline buffer) meets a character boundary it must not split.
pub fn sweep_straddle(prop: &str) -> Vec<Case> {
    let mut cases = Vec::new();
    for spec in SPECS {
        for si in 0..spec.s.len() {
            for k in 0..=136usize {
                for (vn, tail) in [("2", "°bb"), ("4", "😀")] {
                    if vn == "4" && k % 2 == 1 {
                        continue;
                    }
                    let text = format!("{}{}", "a".repeat(k), tail);
                    let mut op = default_op(spec, FIX_OUT);
                    op.s[si] = Some(hex(text.as_bytes()));
                    cases.push(sweep_case(prop, "sweep:straddle", format!("{} text#{si} {k} bytes then a {vn}-byte character", spec.f), vec![op]));
                }
            }
        }
    }
    cases
}

/// Long runs of failing calls on one thread whose messages nobody fetches, then one fetch (or
/// none) and the end of the thread: whatever is kept per failure must not pile up.
pub fn sweep_storm(prop: &str) -> Vec<Case> {
    let mut cases = Vec::new();
    for n in [1_000u64, 40_000, 400_000] {
        for take in [true, false] {
            let mut ops = vec![Op::new(0, "fail_storm").n(&[n]), Op::new(0, "haystack_value_make_str").h(&[FIX_NEW]).s(&[None])];
            if take {
                ops.push(Op::new(0, "last_error_message").h(&[1]));
                ops.push(Op::new(0, "haystack_string_destroy").h(&[1]));
            }
            ops.push(Op::new(0, "thread_exit"));
            ops.push(Op::new(0, "haystack_value_make_str").h(&[FIX_NEW]).s(&[None]));
            cases.push(sweep_case(prop, "sweep:storm", format!("{n} failing calls in a row, message {}", if take { "fetched once" } else { "never fetched" }), ops));
        }
    }
    cases
}

/// Every zone of the tz database, in three spellings, through the timestamp constructor, the
/// accessors and both codecs.
pub fn sweep_zone(prop: &str) -> Vec<Case> {
    let mut cases = Vec::new();
    for tz in chrono_tz::TZ_VARIANTS.iter() {
        let id = tz.name();
        let spellings = [id.to_string(), id[id.find('/').map_or(0, |i| i + 1)..].to_string(), id[id.rfind('/').map_or(0, |i| i + 1)..].to_string()];
        for (si, sp) in spellings.iter().enumerate() {
            if si > 0 && *sp == spellings[si - 1] {
                continue;
            }
            let ops = vec![
                Op::new(0, "haystack_value_make_date").h(&[0]).n(&[2021, 7, 4]),
                Op::new(0, "haystack_value_make_time_millis").h(&[1]).n(&[12, 34, 56, 789]),
                Op::new(0, "haystack_value_make_tz_datetime").h(&[2, 0, 1]).s(&[Some(sp.as_bytes())]),
                Op::new(0, "haystack_value_get_datetime_timezone").h(&[2, 0]),
                Op::new(0, "haystack_value_init").h(&[3]),
                Op::new(0, "haystack_value_init").h(&[4]),
                Op::new(0, "haystack_value_get_datetime_date").h(&[2, 3]).n(&[0]),
                Op::new(0, "haystack_value_get_datetime_time").h(&[2, 4]).n(&[0]),
                Op::new(0, "haystack_value_get_datetime_date").h(&[2, 3]).n(&[1]),
                Op::new(0, "haystack_value_get_datetime_time").h(&[2, 4]).n(&[1]),
                Op::new(0, "haystack_value_to_zinc_string").h(&[2, 1]),
                Op::new(0, "haystack_value_to_json_string").h(&[2, 2]),
                Op::new(0, "last_error_message").h(&[3]),
            ];
            cases.push(history_case(prop, ops, format!("sweep:zone {sp}")));
        }
    }
    cases
}

// -------------------------------------------------------------------------------------------------

pub fn ops_of(case: &Case) -> Vec<Op> {
    case.extra.get("ops").and_then(|v| serde_json::from_value(v.clone()).ok()).unwrap_or_default()
}

pub fn run_case(case: &Case, mode: Mode) -> Outcome {
    let mut out = Outcome::default();
    let ops = ops_of(case);
    let announce = std::env::var("VERIF_ANNOUNCE").is_ok();
    let r = capi::run_history(&ops, mode, announce);
    out.fingerprint = mix(&[r.sim_fp, r.calls, r.skipped]);
    out.steps = r.calls;
    for (k, n) in &r.probes {
        out.probe(k, *n);
    }
    out.nontrivial = r.probes.iter().any(|(k, n)| k.starts_with("fault:") && *n > 0);
    if let Some((sig, detail)) = r.violation.clone() {
        out.violate(sig, detail);
    }
    if mode == Mode::Memory && out.violation.is_none() {
        // Leak and allocation-size oracle: everything the protocol obliges the caller to destroy has been destroyed.
        // Stage 1 (cheap): net live heap blocks of the history; not zero => run it again, now that
        // lazy statics and caches are warm. Stage 2 (authoritative): LeakSanitizer. In an isolated
        // child process (replay, minimisation, confirmation) LeakSanitizer is always asked.
        use std::sync::atomic::{AtomicBool, AtomicU64, Ordering};
        static TAINTED: AtomicBool = AtomicBool::new(false);
        static SEEN: AtomicU64 = AtomicU64::new(0);
        let nth = SEEN.fetch_add(1, Ordering::Relaxed);
        // (net blocks, net bytes) of the history; anything not zero => run it again, now that lazy
        // statics and caches are warm, and judge the second run
        let mut net = (r.net_blocks, r.net_bytes);
        if net.0.is_some_and(|n| n != 0) || net.1.is_some_and(|n| n != 0) {
            out.probe("reach:leak-prefilter-rerun", 1);
            let r2 = capi::run_history(&ops, mode, false);
            net = (r2.net_blocks, r2.net_bytes);
        }
        let suspicious = net.0.is_some_and(|n| n != 0);
        if net.0 == Some(0) && net.1.is_some_and(|n| n != 0) {
            // every block came back, but not with the size it was allocated with: the allocator
            // contract (`GlobalAlloc::dealloc`: same layout) is broken, e.g. by a string rebuilt
            // from a `strlen` shorter than the buffer that was handed out
            out.violate(
                "C18 alloc:size-mismatch capi-history".into(),
                format!("every heap block of the history was released, but the sizes stated at deallocation differ from the sizes allocated by {} byte(s) in total (run twice): a block was given back to the allocator with another size than it was allocated with", net.1.unwrap_or(0)),
            );
        }
        let tainted = TAINTED.load(Ordering::Relaxed);
        if out.violation.is_some() {
            // the size oracle has spoken
        } else if tainted {
            // a leak already exists in this process: LeakSanitizer would keep reporting it, so its
            // answer carries no information any more; the block count alone decides here (and the
            // driver re-confirms whatever it reports in a fresh process, where LeakSanitizer is asked)
            if suspicious {
                out.violate(
                    "C18 lsan:leak capi-history".into(),
                    format!("net live heap blocks after the history (run twice): {:?}; every handle and every returned string was destroyed exactly once", r.net_blocks),
                );
            }
        } else if suspicious || announce || nth % 64 == 0 {
            if let Some(n) = capi::lsan_recoverable_check() {
                out.probe("reach:lsan-check-run", 1);
                if n != 0 {
                    TAINTED.store(true, Ordering::Relaxed);
                    out.violate(
                        "C18 lsan:leak capi-history".into(),
                        format!("LeakSanitizer reports memory that is no longer reachable after a history in which every handle and every returned string was destroyed exactly once (net live heap blocks of the history: {:?})", r.net_blocks),
                    );
                }
            }
        }
    }
    out.accepted = out.violation.is_none();
    out
}

impl CApi {
    fn prop_name(&self) -> &'static str {
        if self.mode == Mode::Memory {
            "C18"
        } else {
            "C17"
        }
    }

    /// (random units, histories per unit)
    fn sizes(&self) -> (usize, usize) {
        match (self.mode, self.ctx.tier) {
            (Mode::Model, Tier::Quick) => (256, 800),
            (Mode::Model, Tier::Thorough) => (1024, 4000),
            (Mode::Memory, Tier::Quick) => (128, 400),
            (Mode::Memory, Tier::Thorough) => (512, 3000),
        }
    }
}

const SWEEPS: &[&str] = &["sweep:null", "sweep:kind", "sweep:index", "sweep:errslot", "sweep:borrow", "sweep:zone", "sweep:hostile", "sweep:size", "sweep:equalish", "sweep:alias", "sweep:straddle", "sweep:storm"];
/// sweeps are split into this many units so that they spread over the worker processes
const SWEEP_PARTS: u64 = 8;

impl Engine for CApi {
    fn prop(&self) -> &'static str {
        self.prop_name()
    }

    fn units(&self) -> Vec<UnitSpec> {
        let mut units = Vec::new();
        let mut id = 0u64;
        for s in SWEEPS {
            for part in 0..SWEEP_PARTS {
                units.push(UnitSpec { id, name: format!("{s}/{part}"), isolated: false, exhaustive: true });
                id += 1;
            }
        }
        for i in 0..self.sizes().0 {
            units.push(UnitSpec { id, name: format!("hist:{i}"), isolated: false, exhaustive: false });
            id += 1;
        }
        units
    }

    fn cases(&self, unit: &UnitSpec) -> Box<dyn Iterator<Item = Case> + '_> {
        let prop = self.prop_name();
        if let Some((sweep, part)) = unit.name.split_once('/') {
            let part: u64 = part.parse().unwrap_or(0);
            let all = match sweep {
                "sweep:null" => sweep_null(prop),
                "sweep:kind" => sweep_kind(prop),
                "sweep:index" => sweep_index(prop),
                "sweep:borrow" => sweep_borrow(prop),
                "sweep:zone" => sweep_zone(prop),
                "sweep:hostile" => sweep_hostile(prop),
                "sweep:size" => sweep_size(prop),
                "sweep:equalish" => sweep_equalish(prop),
                "sweep:alias" => sweep_alias(prop),
                "sweep:straddle" => sweep_straddle(prop),
                "sweep:storm" => sweep_storm(prop),
                _ => sweep_errslot(prop),
            };
            return Box::new(all.into_iter().enumerate().filter(move |(i, _)| *i as u64 % SWEEP_PARTS == part).map(|(_, c)| c));
        }
        let unit_seed = mix(&[self.ctx.seed, fnv1a(b"capi-hist"), unit.id]);
        let n = self.sizes().1 as u64;
        let uname = unit.name.clone();
        Box::new((0..n).map(move |sub| {
            let seed = mix(&[unit_seed, sub]);
            history_case(prop, gen_history(seed), format!("{uname} sub={sub} history_seed={seed}"))
        }))
    }

    fn run(&self, case: &Case) -> Outcome {
        run_case(case, self.mode)
    }

    fn rule(&self) -> String {
        let common = "one evaluation = one call history executed by 1-4 simulated caller threads (real OS threads, one token) against the real extern \"C\" functions, each call compared with the Rust API applied to shadow values; sweeps enumerate (function x pointer-parameter subset set to null), (function x handle parameter x fixture handle of every kind, called twice), (index function x boundary index pairs), (pairs of failing calls x caller threads x take orders x thread exit), (borrowed entry pointers one and two levels deep x every mutating call on their own root and on another container), (every zone of the tz database x three spellings x timestamp constructor, accessors, codecs), (hostile text - NUL, empty, astral, quotes, long - in every string-bearing position of every kind x every string getter, both encoders, container accessors), (lists and dicts grown to every size around their reallocation points x entry operations at the edges, incl. a borrowed entry given back to its own container); seeded histories draw swarm weights per history (operation mix, fault rates for null / wrong kind / out-of-range / invalid UTF-8 / long text, thread count, switch rate); a history is non-trivial when at least one injected argument fault fired (null pointer, wrong-kind handle, or a call the model expects to fail); distinct = distinct explicit histories";
        if self.mode == Mode::Memory {
            format!("{common}; oracle here: AddressSanitizer silent, no abort/signal, LeakSanitizer recoverable check after every history, null arguments answered by sentinel + retrievable error")
        } else {
            format!("{common}; oracle here: return value / sentinel / returned text equal the model's, every touched handle identical (derived Debug) to its shadow after every call and all handles at the end, error slot per caller thread: message retrievable exactly once after a failure, equal to the message the same failing call leaves on a fresh thread, nothing to take otherwise")
        }
    }

    fn isolate_every(&self, unit: &UnitSpec) -> Option<u64> {
        // the reference model is the Rust API in the same process: process-wide state in the library
        // would mislead both sides alike, so a sample of histories is compared with its own run
        // alone in a fresh process (every zone case: name resolution is where such state would sit)
        if self.mode != Mode::Model {
            // under ASan a comparison child costs more; what matters there is a child that dies in
            // another environment (CPU set), the fingerprints are the C17 check's business
            return Some(48);
        }
        Some(if unit.name.starts_with("sweep:zone") { 1 } else { 16 })
    }

    fn isolate_compares_fingerprints(&self) -> bool {
        self.mode == Mode::Model
    }

    fn components(&self) -> (Vec<&'static str>, Vec<&'static str>) {
        (
            vec!["all 91 extern \"C\" functions of src/c_api", "thread_local LAST_ERROR on real OS threads", "DEFAULT_NS", "zinc / hayson codecs", "filter parser and evaluator", "units and timezone tables"],
            vec!["the C caller (history generator, handle pool, ownership protocol)"],
        )
    }
}

//! C03 — decoders are total. The document is in flight on a `SimReader`; the real Zinc parser,
//! the lazy row iterator and the real Hayson path are the sinks. Single-fault spaces are
//! enumerated per base document; multi-fault plans, splices and raw bytes are searched by seed.

use crate::corpus;
use crate::engine::{Ctx, Engine, Tier, UnitSpec};
use crate::gen_json::{self, JsonCfg};
use crate::gen_zinc::{self, GenCfg, ZincDoc};
use crate::harness::*;
use crate::mutate;
use crate::rng::{fnv1a, mix, Rng};
use crate::simio::*;
use libhaystack::encoding::zinc::decode::parser::Parser;
use libhaystack::encoding::zinc::decode::{from_str as zinc_from_str, parse_grid_iterator};
use libhaystack::val::*;
use std::io::Read;

pub struct C03 {
    pub ctx: Ctx,
}

pub fn fuel_budget(len: usize) -> u64 {
    64 * len as u64 + 4096
}

pub fn chan_budget(len: usize) -> u64 {
    4 * len as u64 + 1024
}

/// What a sink returned, rendered for hashing/comparison.
#[derive(Debug, Clone, PartialEq)]
pub enum Decoded {
    Ok(String),
    Err(String),
}

/// Drives one zinc sink over any reader; shared with C11.
pub fn zinc_value_over<R: Read>(r: &mut R) -> Result<Value, std::io::Error> {
    let mut p = Parser::make(r)?;
    p.parse_value()
}

/// Drains the lazy row iterator the way `parse_grid` does: stop at the first error.
pub fn zinc_rows_over<R: Read>(r: &mut R, max_items: usize, mut on_item: impl FnMut(usize, &Result<Dict, std::io::Error>)) -> Result<usize, std::io::Error> {
    let mut p = Parser::make(r)?;
    let mut it = parse_grid_iterator(&mut p)?;
    let mut n = 0;
    while let Some(item) = it.next() {
        on_item(n, &item);
        if let Err(e) = item {
            // a caller that skips a damaged row and carries on: the calls after an error must
            // return as well (what they return is not checked: the iterator is not fused)
            for _ in 0..3 {
                if it.next().is_none() {
                    break;
                }
            }
            return Err(e);
        }
        n += 1;
        if n > max_items {
            return Err(std::io::Error::other("VERIF: iterator yielded more rows than the document has bytes"));
        }
    }
    Ok(n)
}

fn typed_json(ty: &str, doc: &[u8]) -> Result<String, String> {
    macro_rules! go {
        ($t:ty) => {
            serde_json::from_slice::<$t>(doc).map(|v| format!("{:?}", v)).map_err(|e| e.to_string())
        };
    }
    match ty {
        "Marker" => go!(Marker),
        "Remove" => go!(Remove),
        "Na" => go!(Na),
        "Number" => go!(Number),
        "Date" => go!(Date),
        "Time" => go!(Time),
        "DateTime" => go!(DateTime),
        "Ref" => go!(Ref),
        "Uri" => go!(Uri),
        "Symbol" => go!(Symbol),
        "Str" => go!(Str),
        "Coord" => go!(Coord),
        "XStr" => go!(XStr),
        "Dict" => go!(Dict),
        "Grid" => go!(Grid),
        "List" => go!(Vec<Value>),
        _ => go!(Value),
    }
}

pub const TYPED: &[&str] = &[
    "Marker", "Remove", "Na", "Number", "Date", "Time", "DateTime", "Ref", "Uri", "Symbol", "Str", "Coord", "XStr", "Dict", "Grid", "List",
];

fn exit_decode_zinc(doc: &[u8]) {
    let mut cur = std::io::Cursor::new(doc);
    let _ = zinc_value_over(&mut cur);
    let mut cur = std::io::Cursor::new(doc);
    let _ = zinc_rows_over(&mut cur, doc.len() + 16, |_, _| {});
}

fn exit_decode_json(doc: &[u8]) {
    let _ = serde_json::from_slice::<Value>(doc);
}

/// scenario `*-thread-exit`: the document is decoded from the destructor of a thread-local while
/// its thread winds down
fn run_thread_exit(case: &Case) -> Outcome {
    let mut out = Outcome::default();
    let doc = case.doc_bytes();
    let f: DecodeFn = if case.scenario.starts_with("json") { exit_decode_json } else { exit_decode_zinc };
    let guard_first = case.extra.get("guard_first").and_then(|v| v.as_bool()).unwrap_or(true);
    let r = decode_during_thread_exit(f, &doc, guard_first);
    out.nontrivial = true;
    out.probe("fault:decode-from-a-thread-local-destructor-at-thread-exit", 1);
    if let Some((msg, loc)) = r {
        out.violate(format!("C03 panic at thread exit {} {}", loc_class(&loc), msg_class(&msg)), format!("decoding from a thread-local destructor while the thread exits panicked at {loc}: {msg}"));
    }
    out.fingerprint = mix(&[fnv1a(case.scenario.as_bytes()), guard_first as u64, out.violation.is_some() as u64]);
    out
}

pub fn run_case(case: &Case) -> Outcome {
    if case.scenario.ends_with("-thread-exit") {
        return run_thread_exit(case);
    }
    if case.scenario.ends_with("-small-stack") {
        // a flat document decoded on a thread with a small but legal stack, first thing in the process
        let kb = case.extra_usize("stack_kb").unwrap_or(256);
        let doc = case.doc_bytes();
        let json = case.scenario.starts_with("json");
        let mut out = Outcome::default();
        let h = std::thread::Builder::new().stack_size(kb * 1024).spawn(move || if json { exit_decode_json(&doc) } else { exit_decode_zinc(&doc) });
        let ok = h.map(|h| h.join().is_ok()).unwrap_or(false);
        out.nontrivial = true;
        out.probe("fault:small-thread-stack", 1);
        if !ok {
            out.violate(format!("C03 panic {}", case.scenario), "the decoding thread panicked".into());
        }
        out.fingerprint = mix(&[kb as u64, ok as u64]);
        return out;
    }
    let doc = case.doc_bytes();
    let len = doc.len();
    let mut out = Outcome::default();
    let mut reader = SimReader::new(&doc, &case.read).with_budget(chan_budget(len), 16 * len as u64 + 65536);
    let stats = reader.stats.clone();
    let scenario = case.scenario.as_str();
    let (caught, ticks) = guarded(fuel_budget(len), || -> Decoded {
        match scenario {
            "zinc-value" => match zinc_value_over(&mut reader) {
                Ok(v) => Decoded::Ok(canon(&v)),
                Err(e) => Decoded::Err(e.to_string()),
            },
            "zinc-rows" => {
                let mut acc = String::new();
                match zinc_rows_over(&mut reader, len + 16, |_, item| {
                    if let Ok(d) = item {
                        acc.push_str(&canon(&Value::make_dict(d.clone())));
                    }
                }) {
                    Ok(n) => Decoded::Ok(format!("{n} rows {acc}")),
                    Err(e) => Decoded::Err(format!("{acc} {e}")),
                }
            }
            "zinc-str" => match std::str::from_utf8(&doc) {
                Ok(s) => match zinc_from_str(s) {
                    Ok(v) => Decoded::Ok(canon(&v)),
                    Err(e) => Decoded::Err(e.to_string()),
                },
                Err(_) => Decoded::Err("not utf-8 (sink takes &str)".into()),
            },
            "json-reader" => match serde_json::from_reader::<_, Value>(&mut reader) {
                Ok(v) => Decoded::Ok(canon(&v)),
                Err(e) => Decoded::Err(e.to_string()),
            },
            "json-slice" => match serde_json::from_slice::<Value>(&doc) {
                Ok(v) => Decoded::Ok(canon(&v)),
                Err(e) => Decoded::Err(e.to_string()),
            },
            "json-str" => match std::str::from_utf8(&doc) {
                Ok(s) => match serde_json::from_str::<Value>(s) {
                    Ok(v) => Decoded::Ok(canon(&v)),
                    Err(e) => Decoded::Err(e.to_string()),
                },
                Err(_) => Decoded::Err("not utf-8 (sink takes &str)".into()),
            },
            s if s.starts_with("json-typed:") => match typed_json(&s[11..], &doc) {
                Ok(v) => Decoded::Ok(v),
                Err(e) => Decoded::Err(e),
            },
            other => Decoded::Err(format!("VERIF: unknown scenario {other}")),
        }
    });
    let fired = stats.eintr_fired.get() + stats.err_fired.get() + stats.trunc_fired.get() + stats.reentered.get();
    out.probe("fault:reader-re-enters-the-decoders", stats.reentered.get());
    out.steps = stats.calls.get() + ticks;
    out.probe("fault:eintr", stats.eintr_fired.get());
    out.probe("fault:io-error", stats.err_fired.get());
    out.probe("fault:truncate", stats.trunc_fired.get().min(1));
    out.probe("fault:short-read", stats.short_ops.get().min(1));
    if case.extra.contains_key("mutation") {
        out.probe("fault:corruption", 1);
    }
    let rendered = match &caught {
        Caught::Done(Decoded::Ok(s)) => {
            out.accepted = true;
            format!("ok {s}")
        }
        Caught::Done(Decoded::Err(e)) => {
            if e.starts_with("VERIF:") {
                out.violate(format!("C03 harness {}", msg_class(e)), e.clone());
            }
            if std::env::var("VERIF_DEBUG").is_ok() {
                eprintln!("decode error: {e}");
            }
            format!("err {e}")
        }
        Caught::Panic { msg, loc } => {
            out.violate(format!("C03 panic {} {}", loc_class(loc), msg_class(msg)), format!("panicked at {loc}: {msg}"));
            format!("panic {msg}")
        }
        Caught::Fuel { site, used } => {
            out.violate(
                format!("C03 non-termination {scenario} fuel"),
                format!("{used} parser steps (budget {}) for a {len}-byte document, last tick site {site}: the decoder does not terminate", fuel_budget(len)),
            );
            "fuel".to_string()
        }
        Caught::ChanBudget { calls } => {
            out.violate(
                format!("C03 non-termination {scenario} channel"),
                format!("{calls} read() calls on a {len}-byte document after the last fault: the decoder does not terminate"),
            );
            "chan".to_string()
        }
        Caught::Budget { what, n } => {
            out.violate(format!("C03 non-termination {scenario} {what}"), format!("{n} steps"));
            "budget".to_string()
        }
    };
    // reach probes derived from where the stream stopped
    let eff = &doc[..case.read.truncate.map_or(len, |t| t.min(len))];
    if case.read.truncate.is_some() || case.read.err.is_some() {
        let cut = case.read.truncate.or(case.read.err.as_ref().map(|e| e.at)).unwrap_or(len).min(len);
        let pre = &doc[..cut];
        if pre.ends_with(b"-") {
            out.probe("reach:stop-after-minus", 1);
        }
        if pre.ends_with(b"Z") {
            out.probe("reach:stop-after-Z", 1);
        }
        if pre.ends_with(b"Z ") {
            out.probe("reach:stop-in-zone-lookahead", 1);
        }
        if pre.len() >= 2 && pre[pre.len().saturating_sub(6)..].windows(2).any(|w| w == b"\\u") {
            out.probe("reach:stop-in-unicode-escape", 1);
        }
        if pre.ends_with(b",") {
            out.probe("reach:stop-after-cell-separator", 1);
        }
        if pre.ends_with(b"<") || pre.ends_with(b">") {
            out.probe("reach:stop-in-nested-grid-marker", 1);
        }
        if pre.ends_with(b"\r") {
            out.probe("reach:stop-inside-crlf", 1);
        }
        if pre.last().is_some_and(|b| *b >= 0x80) {
            out.probe("reach:stop-inside-utf8", 1);
        }
    }
    let _ = eff;
    if let Some(m) = case.extra_str("mutation") {
        if m == "extra-cells" {
            out.probe("reach:row-with-extra-cells", 1);
        }
        if m == "drop-closer" {
            out.probe("reach:unterminated-construct", 1);
        }
        if m == "utf8-splice" {
            out.probe("fault:multi-byte-character-spliced-in", 1);
        }
        if m == "json-structure" {
            out.probe("fault:json-member-of-wrong-type-or-missing", 1);
        }
        if m == "json-members" {
            out.probe("fault:json-member-repeated-moved-or-foreign", 1);
        }
        if m == "bad-utf8" {
            out.probe("fault:ill-formed-utf8-sequence-inserted", 1);
        }
    }
    out.nontrivial = fired > 0 || stats.short_ops.get() > 0 || case.extra.contains_key("mutation");
    out.fingerprint = mix(&[fnv1a(rendered.as_bytes()), stats.calls.get(), stats.delivered.get() as u64, ticks]);
    // ticks per byte, for the budget-margin report
    out.probes.push(("ticks_per_byte_x100", if len > 0 { ticks * 100 / len as u64 } else { 0 }));
    out
}

// ---------------------------------------------------------------------------------------------
// work units

fn sinks_for(kind: &str, grid: bool) -> Vec<&'static str> {
    match kind {
        "zinc" => {
            if grid {
                vec!["zinc-value", "zinc-rows"]
            } else {
                vec!["zinc-value"]
            }
        }
        _ => vec!["json-reader"],
    }
}

/// Every single-fault variant of one base document (finite: enumerated, not sampled).
pub fn enumerate_single_faults(prop: &str, base: &[u8], kind: &str, grid: bool, unit_name: &str, k: usize) -> Vec<Case> {
    let n = base.len();
    let mut cases = Vec::new();
    let mk = |scenario: &str, doc: &[u8], origin: String| -> Case {
        let mut c = Case::new(prop, scenario, doc);
        c.origin = format!("{unit_name} {origin}");
        c
    };
    for sink in sinks_for(kind, grid) {
        // fault free, three chunkings
        for chunk in [Chunk::Full, Chunk::One, Chunk::Pow2, Chunk::AllButOne, Chunk::Fixed(3)] {
            let mut c = mk(sink, base, format!("chunk {chunk:?}"));
            c.read.chunk = chunk;
            cases.push(c);
        }
        // every truncation offset
        for off in 0..=n {
            let mut c = mk(sink, base, format!("truncate@{off}"));
            c.read.truncate = Some(off);
            cases.push(c);
        }
        // every offset x two error kinds (rotating through all kinds), sticky and transient
        for off in 0..=n {
            for j in 0..2 {
                let kind_name = ERR_KINDS[(off + k + j * 4) % ERR_KINDS.len()];
                let mut c = mk(sink, base, format!("{kind_name}@{off}"));
                c.read.err = Some(ErrSpec { at: off, kind: kind_name.to_string(), sticky: j == 0 });
                c.read.chunk = if off % 2 == 0 { Chunk::Full } else { Chunk::Fixed(5) };
                cases.push(c);
            }
        }
        // the reader re-enters the decoders (same thread) before read call k, for every k
        for call in 0..=(n as u64).min(400) {
            let mut c = mk(sink, base, format!("reenter@call{call}"));
            c.read.reenter = vec![call];
            c.read.chunk = Chunk::One;
            cases.push(c);
        }
        // EINTR at every read call
        for call in 0..=(n as u64 + 1) {
            let mut c = mk(sink, base, format!("eintr@call{call}"));
            c.read.eintr = vec![(call, 1 + (call % 3) as u32)];
            cases.push(c);
        }
        // every single-byte deletion and duplication
        for off in 0..n {
            let mut c = mk(sink, &mutate::delete_byte(base, off), format!("delete@{off}"));
            c.extra.insert("mutation".into(), "delete".into());
            cases.push(c);
            let mut c = mk(sink, &mutate::dup_byte(base, off), format!("dup@{off}"));
            c.extra.insert("mutation".into(), "duplicate".into());
            cases.push(c);
        }
        // a multi-byte character over every window of 2, 3 and 4 bytes (length kept: byte-indexed
        // slicing of text that is still valid UTF-8), and inserted at every offset
        if n <= 512 {
            for off in 0..=n {
                for ch in ["é", "€", "😀"] {
                    let k = ch.len();
                    if off + k <= n {
                        let mut d = base.to_vec();
                        d.splice(off..off + k, ch.bytes());
                        let mut c = mk(sink, &d, format!("utf8-over@{off}+{k}"));
                        c.extra.insert("mutation".into(), "utf8-splice".into());
                        cases.push(c);
                    }
                    if k == 2 || off % 3 == 0 {
                        let mut d = base.to_vec();
                        d.splice(off..off, ch.bytes());
                        let mut c = mk(sink, &d, format!("utf8-insert@{off}+{k}"));
                        c.extra.insert("mutation".into(), "utf8-splice".into());
                        cases.push(c);
                    }
                }
            }
        }
        // ill-formed UTF-8 of every kind at every offset (every third one in longer documents)
        if n <= 512 && !sink.ends_with("-str") {
            for off in (0..=n).step_by(if n <= 160 { 1 } else { 3 }) {
                for (k, seq) in mutate::BAD_UTF8.iter().enumerate() {
                    let mut d = base.to_vec();
                    d.splice(off..off, seq.iter().cloned());
                    let mut c = mk(sink, &d, format!("bad-utf8#{k}@{off}"));
                    c.extra.insert("mutation".into(), "bad-utf8".into());
                    cases.push(c);
                }
            }
        }
        // every single-bit flip for short documents
        if n <= 256 {
            for off in 0..n {
                for bit in 0..8 {
                    let mut c = mk(sink, &mutate::flip_bit(base, off, bit), format!("flip@{off}.{bit}"));
                    c.extra.insert("mutation".into(), "bitflip".into());
                    cases.push(c);
                }
            }
        }
    }
    // contiguous entry points on the base and its prefixes
    let (str_sink, slice_sink) = if kind == "zinc" { ("zinc-str", None) } else { ("json-str", Some("json-slice")) };
    for off in 0..=n {
        cases.push(mk(str_sink, &base[..off], format!("prefix..{off}")));
        if let Some(s) = slice_sink {
            cases.push(mk(s, &base[..off], format!("prefix..{off}")));
        }
    }
    if kind == "json" {
        // every single structural fault: a member of the wrong JSON type, a missing member
        for (what, doc) in mutate::json_struct_variants(base) {
            for sink in ["json-slice", "json-reader"] {
                let mut c = mk(sink, &doc, what.clone());
                c.extra.insert("mutation".into(), "json-structure".into());
                if sink == "json-reader" {
                    c.read.chunk = Chunk::Fixed(7);
                }
                cases.push(c);
            }
        }
        // ... and every member-level fault that keeps the text JSON: repeated, moved, foreign members
        for (what, doc) in mutate::json_member_variants(base) {
            for sink in ["json-slice", "json-reader"] {
                let mut c = mk(sink, &doc, what.clone());
                c.extra.insert("mutation".into(), "json-members".into());
                if sink == "json-reader" {
                    c.read.chunk = Chunk::Fixed(5);
                }
                cases.push(c);
            }
        }
        for ty in TYPED {
            cases.push(mk(&format!("json-typed:{ty}"), base, "typed".into()));
            for off in (0..n).step_by(7) {
                cases.push(mk(&format!("json-typed:{ty}"), &base[..off], format!("typed prefix..{off}")));
            }
        }
    }
    cases
}

/// Every pair of single-bit flips, and every single-bit flip combined with every later truncation
/// point, of a short base document.
pub fn enumerate_double_faults(prop: &'static str, base: Vec<u8>, kind: &'static str, grid: bool, unit_name: String) -> impl Iterator<Item = Case> {
    let n = base.len();
    let sinks: Vec<&'static str> = if kind == "json" { vec!["json-slice"] } else if grid { vec!["zinc-value", "zinc-rows"] } else { vec!["zinc-value"] };
    let nbits = n * 8;
    (0..nbits).flat_map(move |a| {
        let base = base.clone();
        let sinks = sinks.clone();
        let unit_name = unit_name.clone();
        let first = mutate::flip_bit(&base, a / 8, (a % 8) as u8);
        let mut out: Vec<Case> = Vec::new();
        for b in a + 1..nbits {
            let doc = mutate::flip_bit(&first, b / 8, (b % 8) as u8);
            for sink in &sinks {
                let mut c = Case::new(prop, sink, &doc);
                c.extra.insert("mutation".into(), "bitflip".into());
                c.extra.insert("mutations".into(), "bitflip+bitflip".into());
                c.origin = format!("{unit_name} flip@{}.{}+flip@{}.{}", a / 8, a % 8, b / 8, b % 8);
                out.push(c);
            }
        }
        for cut in a / 8 + 1..=n {
            for sink in &sinks {
                let mut c = Case::new(prop, sink, &first);
                c.extra.insert("mutation".into(), "bitflip".into());
                c.read.truncate = Some(cut);
                c.read.chunk = if cut % 2 == 0 { Chunk::One } else { Chunk::Full };
                c.origin = format!("{unit_name} flip@{}.{}+truncate@{cut}", a / 8, a % 8);
                out.push(c);
            }
        }
        out.into_iter()
    })
}

/// Fault plan biased to in-flight state: inside tokens, at token boundaries +-1, in look-ahead windows.
pub fn random_read_plan(rng: &mut Rng, len: usize, tokens: &[(usize, usize)], hard: bool) -> ReadPlan {
    let mut plan = ReadPlan { chunk_seed: rng.next_u64(), ..Default::default() };
    plan.chunk = match rng.below(7) {
        0 => Chunk::Full,
        1 => Chunk::One,
        2 => Chunk::Random(1 + rng.usize(8)),
        3 => Chunk::Pow2,
        4 => Chunk::AllButOne,
        5 => Chunk::Fixed(1 + rng.usize(7)),
        _ => Chunk::Random(64),
    };
    let place = |rng: &mut Rng| -> usize {
        if !tokens.is_empty() && rng.chance(3, 4) {
            let (s, e) = tokens[rng.usize(tokens.len())];
            let base = match rng.below(5) {
                0 => s,
                1 => e,
                2 => s + 1,
                3 => e.saturating_sub(1),
                _ => s + rng.usize((e - s).max(1)),
            };
            base.min(len)
        } else {
            rng.usize(len + 1)
        }
    };
    let n_eintr = *rng.pick(&[0usize, 0, 1, 2, 4]);
    for _ in 0..n_eintr {
        // read-call index ~ byte offset for the one-byte-at-a-time scanners
        let at = place(rng) as u64 + rng.below(3);
        plan.eintr.push((at, 1 + rng.below(8) as u32));
    }
    if rng.chance(1, 8) {
        // stall: a long run of Interrupted
        plan.eintr.push((place(rng) as u64, 16 + rng.below(48) as u32));
    }
    if rng.chance(1, 12) {
        // the reader decodes something of its own, on this thread, before some of its answers
        for _ in 0..rng.range(1, 4) {
            plan.reenter.push(rng.below(len as u64 + 2));
        }
    }
    if rng.chance(1, 10) {
        // storm: single interruptions at every k-th read call over a long stretch (a counter of
        // retries that is never reset, a budget of interruptions per decode)
        let k = 2 + rng.below(5);
        let from = rng.below(8);
        let n = 20 + rng.below(200);
        for i in 0..n {
            plan.eintr.push((from + i * k, 1));
        }
    }
    if hard {
        match rng.below(4) {
            0 => plan.truncate = Some(place(rng)),
            1 | 2 => {
                plan.err = Some(ErrSpec { at: place(rng), kind: rng.pick(ERR_KINDS).to_string(), sticky: rng.chance(1, 2) });
            }
            _ => {
                plan.err = Some(ErrSpec { at: place(rng), kind: rng.pick(ERR_KINDS).to_string(), sticky: false });
                plan.truncate = Some(place(rng));
            }
        }
    }
    plan
}

impl C03 {
    fn sizes(&self) -> (usize, usize, usize, usize) {
        // (generated zinc docs, generated json docs, search units, cases per search unit)
        match self.ctx.tier {
            Tier::Quick => (300, 120, 256, 6000),
            Tier::Thorough => (3000, 1200, 4096, 20000),
        }
    }

    /// base documents up to this length get every *pair* of faults enumerated as well
    fn max_len_two_faults(&self) -> usize {
        match self.ctx.tier {
            Tier::Quick => 14,
            Tier::Thorough => 32,
        }
    }

    fn base_docs(&self) -> Vec<(String, &'static str, bool, Vec<u8>)> {
        let mut v = Vec::new();
        for (name, text) in corpus::zinc_snippets(&self.ctx) {
            let grid = text.starts_with(b"ver:");
            v.push((name, "zinc", grid, text));
        }
        for (name, text) in corpus::json_snippets(&self.ctx) {
            v.push((name, "json", false, text));
        }
        let (nz, nj, _, _) = self.sizes();
        for i in 0..nz {
            let mut rng = Rng::new(mix(&[self.ctx.seed, fnv1a(b"C03-base-zinc"), i as u64]));
            let cfg = GenCfg::swarm(&mut rng);
            let mut doc = gen_zinc::gen_doc(&mut rng, &cfg, None);
            let cap = if self.ctx.tier == Tier::Quick { 160 } else { 400 };
            if doc.text.len() > cap {
                doc = gen_zinc::gen_doc(&mut rng, &GenCfg { max_depth: 1, max_items: 2, max_rows: 2, max_cols: 2, big: None, ..cfg }, None);
            }
            if doc.text.len() > 2 * cap {
                continue;
            }
            v.push((format!("gen-zinc-{i}"), "zinc", doc.kind == "grid", doc.text));
        }
        for i in 0..nj {
            let mut rng = Rng::new(mix(&[self.ctx.seed, fnv1a(b"C03-base-json"), i as u64]));
            let cfg = JsonCfg::swarm(&mut rng);
            let mut doc = gen_json::gen_doc(&mut rng, &cfg);
            let cap = if self.ctx.tier == Tier::Quick { 200 } else { 500 };
            if doc.len() > cap {
                doc = gen_json::gen_doc(&mut rng, &JsonCfg { max_depth: 1, max_items: 2, big: None, ..cfg });
            }
            if doc.len() > 2 * cap {
                continue;
            }
            v.push((format!("gen-json-{i}"), "json", false, doc));
        }
        v
    }

    fn ladder(&self) -> Vec<Case> {
        let depths: Vec<usize> = match self.ctx.tier {
            Tier::Quick => vec![1, 2, 8, 64, 128, 129, 512, 1000, 2500, 5000, 10_000, 20_000, 100_000],
            Tier::Thorough => vec![1, 2, 3, 4, 8, 16, 32, 64, 127, 128, 129, 256, 512, 1000, 2000, 2500, 2900, 4000, 5000, 5900, 6900, 7900, 10_000, 15_000, 20_000, 50_000, 100_000],
        };
        let mut cases = Vec::new();
        for shape in ["list", "dict", "grid", "mixed", "json-list", "json-dict"] {
            for d in &depths {
                for closed in [true, false] {
                    let doc = gen_zinc::nest_doc(shape, *d, closed);
                    let sinks: &[&str] = if shape.starts_with("json") { &["json-slice", "json-reader"] } else { &["zinc-value"] };
                    for sink in sinks {
                        let mut c = Case::new("C03", sink, &doc);
                        c.extra.insert("nest_shape".into(), shape.into());
                        c.extra.insert("nest_depth".into(), (*d as u64).into());
                        c.extra.insert("nest_closed".into(), closed.into());
                        c.origin = format!("ladder {shape} depth={d} closed={closed}");
                        cases.push(c);
                    }
                }
            }
        }
        // flat documents on a small (48 KiB) thread stack, first thing in a fresh process (lazily built
        // unit / zone tables are built on that stack; the unchanged tree needs < 32 KiB)
        for (sink, d) in [
            ("zinc-small-stack", "5kW"),
            ("zinc-small-stack", "2021-01-01T00:00:00-05:00 New_York"),
            ("zinc-small-stack", "{a:1kW b:\"s\" c:@r d:[1,2]}"),
            ("zinc-small-stack", "ver:\"3.0\"\na,b\n1kW,2021-01-01T00:00:00Z UTC\n"),
            ("json-small-stack", "{\"_kind\":\"number\",\"val\":1,\"unit\":\"kW\"}"),
            ("json-small-stack", "{\"_kind\":\"dateTime\",\"val\":\"2021-01-01T00:00:00-05:00\",\"tz\":\"New_York\"}"),
            ("json-small-stack", "{\"_kind\":\"grid\",\"meta\":{\"ver\":\"3.0\"},\"cols\":[{\"name\":\"a\"}],\"rows\":[{\"a\":1}]}"),
        ] {
            let mut c = Case::new("C03", sink, d.as_bytes());
            c.extra.insert("stack_kb".into(), 48u64.into());
            c.origin = format!("small stack 48 KiB: {d}");
            cases.push(c);
        }
        // length ladders: one construct repeated n times, no nesting
        let lengths: Vec<usize> = match self.ctx.tier {
            Tier::Quick => vec![1000, 100_000],
            Tier::Thorough => vec![10, 1000, 10_000, 100_000, 1_000_000],
        };
        for shape in [
            "flat-list", "flat-dict", "many-rows", "many-cols", "many-meta", "long-str", "long-str-escapes", "long-number", "long-fraction", "long-uri", "long-ref", "long-unit",
            "json-flat-list", "json-flat-dict", "json-long-str", "json-many-rows",
        ] {
            for n in &lengths {
                let doc = gen_zinc::long_doc(shape, *n);
                let sinks: &[&str] = if shape.starts_with("json") { &["json-slice", "json-reader"] } else if shape.starts_with("many-") { &["zinc-value", "zinc-rows"] } else { &["zinc-value"] };
                for sink in sinks {
                    let mut c = Case::new("C03", sink, &doc);
                    c.extra.insert("nest_shape".into(), shape.into());
                    c.extra.insert("nest_depth".into(), (*n as u64).into());
                    c.origin = format!("length ladder {shape} n={n}");
                    cases.push(c);
                }
            }
        }
        cases
    }
}

impl Engine for C03 {
    fn prop(&self) -> &'static str {
        "C03"
    }

    fn units(&self) -> Vec<UnitSpec> {
        let mut units = Vec::new();
        let mut id = 0u64;
        for (name, _, _, _) in self.base_docs() {
            units.push(UnitSpec { id, name: format!("enum:{name}"), isolated: false, exhaustive: true });
            id += 1;
        }
        let (_, _, search, _) = self.sizes();
        for i in 0..search {
            units.push(UnitSpec { id, name: format!("search:{i}"), isolated: false, exhaustive: false });
            id += 1;
        }
        units.push(UnitSpec { id, name: "ladder".into(), isolated: true, exhaustive: false });
        id += 1;
        for b in gen_zinc::BOUNDARIES {
            units.push(UnitSpec { id, name: format!("boundary:{b}"), isolated: false, exhaustive: true });
            id += 1;
        }
        for part in 0..8 {
            units.push(UnitSpec { id, name: format!("fields:{part}"), isolated: false, exhaustive: true });
            id += 1;
        }
        units.push(UnitSpec { id, name: "thread-exit".into(), isolated: false, exhaustive: true });
        id += 1;
        // two-fault enumeration for the short base documents
        let max2 = self.max_len_two_faults();
        for (name, _, _, text) in self.base_docs() {
            if text.len() <= max2 && !text.is_empty() {
                units.push(UnitSpec { id, name: format!("enum2:{name}"), isolated: false, exhaustive: true });
                id += 1;
            }
        }
        units
    }

    fn cases(&self, unit: &UnitSpec) -> Box<dyn Iterator<Item = Case> + '_> {
        if let Some(name) = unit.name.strip_prefix("enum:") {
            let docs = self.base_docs();
            let (k, (_, kind, grid, text)) = docs.iter().enumerate().find(|(_, d)| d.0 == name).expect("unit exists");
            return Box::new(enumerate_single_faults("C03", text, kind, *grid, &unit.name, k).into_iter());
        }
        if unit.name == "ladder" {
            return Box::new(self.ladder().into_iter());
        }
        if unit.name == "thread-exit" {
            // every hand-picked document decoded from a thread-local destructor of an exiting thread,
            // with the guard created before / after the thread's first ordinary decode
            let mut cases = Vec::new();
            for (kind, docs) in [("zinc", corpus::ZINC_HAND), ("json", corpus::JSON_HAND)] {
                for d in docs.iter() {
                    for guard_first in [true, false] {
                        let mut c = Case::new("C03", &format!("{kind}-thread-exit"), d.as_bytes());
                        c.extra.insert("guard_first".into(), guard_first.into());
                        c.origin = format!("thread-exit {kind} guard_first={guard_first}");
                        cases.push(c);
                    }
                }
            }
            return Box::new(cases.into_iter());
        }
        if let Some(part) = unit.name.strip_prefix("fields:") {
            // every value of the two-digit fields of date / time / timestamp literals, as a scalar,
            // as a grid cell (lazy rows) and as a Hayson value
            let part: usize = part.parse().unwrap_or(0);
            let uname = unit.name.clone();
            return Box::new(gen_zinc::field_sweep().into_iter().enumerate().filter(move |(i, _)| i % 8 == part).flat_map(move |(_, lit)| {
                let kind = if lit.contains('T') { "dateTime" } else if lit.contains(':') { "time" } else { "date" };
                let (val, tz) = match lit.split_once(' ') {
                    Some((v, z)) => (v.to_string(), Some(z.to_string())),
                    None => (lit.clone(), None),
                };
                let json = match tz {
                    Some(z) => format!("{{\"_kind\":\"{kind}\",\"val\":\"{val}\",\"tz\":\"{z}\"}}"),
                    None => format!("{{\"_kind\":\"{kind}\",\"val\":\"{val}\"}}"),
                };
                let grid = format!("ver:\"3.0\"\na,b\n{lit},1\n2,{lit}\n");
                let uname = uname.clone();
                [("zinc-value", lit.clone().into_bytes()), ("zinc-rows", grid.into_bytes()), ("json-slice", json.into_bytes())].into_iter().map(move |(sink, doc)| {
                    let mut c = Case::new("C03", sink, &doc);
                    c.extra.insert("mutation".into(), "field-value".into());
                    c.origin = format!("{uname} {lit}");
                    c
                })
            }));
        }
        if let Some(b) = unit.name.strip_prefix("boundary:") {
            // every token kind straddling a buffer-size boundary, a little text after it; list and grid
            let boundary: usize = b.parse().unwrap_or(4096);
            let uname = unit.name.clone();
            return Box::new((0..gen_zinc::ZINC_LIST_UNIT.len()).step_by(if boundary > 20000 { 3 } else { 1 }).flat_map(move |shift| {
                let list = gen_zinc::boundary_doc("[", gen_zinc::ZINC_LIST_UNIT, "N]", b' ', boundary, shift);
                let grid = gen_zinc::boundary_doc("ver:\"3.0\" pad:\"", gen_zinc::ZINC_ROW_UNIT, "", b'p', boundary, shift);
                // the padding of the grid sits inside a meta string that is closed before the columns
                let mut grid_fixed = Vec::new();
                let head_len = "ver:\"3.0\" pad:\"".len() + shift;
                grid_fixed.extend_from_slice(&grid[..head_len]);
                grid_fixed.extend_from_slice(b"\"\na,b,c,d\n");
                grid_fixed.extend_from_slice(&grid[head_len..]);
                let uname = uname.clone();
                let mut out = Vec::new();
                for (sink, doc, chunk) in [("zinc-value", &list, Chunk::Full), ("zinc-value", &list, Chunk::Fixed(4096)), ("zinc-str", &list, Chunk::Full), ("zinc-rows", &grid_fixed, Chunk::Full), ("zinc-value", &grid_fixed, Chunk::Pow2)] {
                    let mut c = Case::new("C03", sink, doc);
                    c.read.chunk = chunk;
                    c.extra.insert("mutation".into(), "boundary".into());
                    c.origin = format!("{uname} shift={shift} {sink}");
                    out.push(c);
                }
                out.into_iter()
            }));
        }
        if let Some(name) = unit.name.strip_prefix("enum2:") {
            let docs = self.base_docs();
            let (_, kind, grid, text) = docs.into_iter().find(|d| d.0 == name).expect("unit exists");
            return Box::new(enumerate_double_faults("C03", text, kind, grid, unit.name.clone()));
        }
        // seeded search over multi-fault plans x corrupted documents x raw bytes
        let (_, _, _, per) = self.sizes();
        let unit_seed = mix(&[self.ctx.seed, fnv1a(b"C03-search"), unit.id]);
        let uname = unit.name.clone();
        Box::new((0..per as u64).map(move |sub| {
            let rng = Rng::new(mix(&[unit_seed, sub]));
            let mut wl = rng.fork("workload");
            let mut fl = rng.fork("faults");
            let flavour = wl.below(10);
            let (mut text, tokens, sink): (Vec<u8>, Vec<(usize, usize)>, &str);
            if flavour < 6 {
                let cfg = GenCfg::swarm(&mut wl);
                let doc: ZincDoc = gen_zinc::gen_doc(&mut wl, &cfg, None);
                sink = if doc.kind == "grid" && wl.chance(1, 2) { "zinc-rows" } else { "zinc-value" };
                text = doc.text;
                tokens = doc.tokens;
            } else if flavour < 9 {
                let cfg = JsonCfg::swarm(&mut wl);
                text = gen_json::gen_doc(&mut wl, &cfg);
                tokens = Vec::new();
                sink = "json-reader";
            } else {
                // raw bytes, biased to structural characters
                let n = wl.range(0, 48);
                text = (0..n).map(|_| if wl.chance(2, 3) { *wl.pick(mutate::STRUCT_BYTES) } else { wl.below(256) as u8 }).collect();
                tokens = Vec::new();
                sink = *wl.pick(&["zinc-value", "zinc-rows", "json-reader"]);
            }
            let mut case_extra = None;
            let n_mut = *fl.pick(&[0usize, 0, 1, 1, 2, 3, 6]);
            if n_mut > 0 {
                let dcfg = GenCfg::swarm(&mut wl);
                let donor = gen_zinc::gen_doc(&mut wl, &dcfg, None);
                let mut names = Vec::new();
                let mut toks = tokens.clone();
                for _ in 0..n_mut {
                    names.push(mutate::random_op(&mut fl, &mut text, &toks, &donor.text, &donor.tokens));
                    toks.clear(); // spans are stale after the first edit
                }
                case_extra = Some(names.join("+"));
            }
            let hard = fl.chance(2, 3);
            let plan = random_read_plan(&mut fl, text.len(), &tokens, hard);
            let mut c = Case::new("C03", sink, &text);
            c.read = plan;
            if let Some(m) = case_extra {
                let first = m.split('+').next().unwrap_or("").to_string();
                c.extra.insert("mutation".into(), first.into());
                c.extra.insert("mutations".into(), m.into());
            }
            c.origin = format!("{uname} sub={sub}");
            c
        }))
    }

    fn run(&self, case: &Case) -> Outcome {
        run_case(case)
    }

    fn components(&self) -> (Vec<&'static str>, Vec<&'static str>) {
        (
            vec!["zinc scanner", "zinc lexer", "zinc parser (parse_value, list, dict, grid, RowIterator)", "zinc scalar parsers", "zinc from_str", "Hayson Deserialize impls + visitor", "serde_json"],
            vec!["byte channel (SimReader)"],
        )
    }

    fn isolate_every(&self, _unit: &UnitSpec) -> Option<u64> {
        // process-wide or per-thread state left behind by earlier decodes must not change a result
        Some(128)
    }

    fn rule(&self) -> String {
        "cases = (base document x single fault) enumerated for every offset [truncation, I/O error of rotating kinds sticky/transient, EINTR at every read call, byte delete/duplicate, bit flips for docs <=256 B, all prefixes on the contiguous entry points, typed Hayson sinks] + seeded multi-fault search [generated/raw documents x 0-6 corruption operators x chunking/EINTR/stall/error/truncation plans biased to token boundaries] + nesting ladder in isolated child processes; a case is non-trivial when a fault actually fired inside the decode (EINTR, I/O error, truncation before the end, short read) or the document was corrupted in flight; distinct = distinct (scenario, delivered bytes, fault plan) identities among those".into()
    }
}

//! Base documents that are not generated: hand-picked snippets covering every syntax feature,
//! and windows of the corpus files shipped with the repository (read at run time from the
//! working tree under test).

use crate::engine::{Ctx, Tier};
use std::fs;

pub const ZINC_HAND: &[&str] = &[
    "N",
    "M",
    "NA",
    "T",
    "-INF",
    "NaN",
    "42",
    "-3.5e-7kW",
    "1_000.25$",
    "75%",
    "21.5°C",
    "\"hello \\\"w\\\" \\n \\u00e9 \\$ é𝄞\"",
    "\"\\ud83d\\ude00 \\ud83d x \\ude00 \\ud83d\\u0041 \\udbff\\uffff \\u0000\"",
    "`a\\ud83d\\u0041b\\ud83d\\ude00`",
    "08:05:01.05",
    "{a:\"ééééééééééééééééééééééééééé\" b:`éééééééééééééééééééééééé` c:@r \"日本語日本語日本語日本語日本語日本語日本語日本語\"}",
    "[@r \"日本語日本語日本語日本語日本語日本語日本語日本語\", \"😀😀😀😀😀😀😀😀😀😀😀😀😀😀😀😀😀😀\", `ßßßßßßßßßßßßßßßßßßßßßßßßßßßßßßßßßß`]",
    "ver:\"3.0\" m:\"éééééééééééééééééééééééééééééé\"\na dis:\"ééééééééééééééééééééééééééé\",b\n\"ééééééééééééééééééééééééééééé\",`éééééééééééééééééééééééé`\n",
    // reproducers of the listed known findings (so that every run meets them)
    "8e400°F",
    "1937-06-05T09:56:09+00:20 Amsterdam",
    "0021-06-05T09:56:09-07:53 Los_Angeles",
    "9999-12-31T05:15:46-11:00 Apia",
    "2021-06-07T00:00:00.000001Z",
    "`http://h/p?q=1#f`",
    "`a\\:b\\/c\\`d`",
    "@a-b:c.d~e_f",
    "@site-1 \"Main \\\"Site\\\"\"",
    "^hot-water",
    "2021-06-07",
    "12:34:56.789",
    "2021-06-07T12:34:56Z",
    "2021-06-07T12:34:56.123Z UTC",
    "2021-06-07T12:34:56-04:00 New_York",
    "2021-06-07T18:04:56+05:30 Kolkata",
    "C(37.545,-77.449)",
    "Bin(\"text/plain\")",
    "Span( \"today\" )",
    "[1, \"a\", [M, R], {x y:2}, ]",
    "[]",
    "{}",
    "{a b:1, c:\"x\" d:@r \"dis\" e:[1,2] f:{g}}",
    "{dis:\"Site\" geoCoord:C(1.5,-2.5) tz:\"New_York\" area:1000ft² when:2021-01-01T00:00:00Z}",
    "ver:\"3.0\"\nempty\n\n",
    "ver:\"3.0\"\na\n1\n",
    "ver:\"3.0\"\na,b\n1,2\n3,4\n",
    "ver:\"3.0\"\r\na,b\r\n1,2\r\n,\"x\"\r\n",
    "ver:\"3.0\" foo:\"x\" bar\na dis:\"A\" m,b\n1,\n\n,2\n@r \"d\",N\n",
    "ver:\"2.0\"\nid,val\n@p1,12kW\n@p2 \"P 2\",-INF\n@p3,2021-06-07T12:34:56Z\n",
    "ver:\"3.0\"\na,g\n1,<<\nver:\"3.0\"\nx,y\n1,\"in\"\n2,[1,{k}]\n>>\n2,N\n",
    "ver:\"3.0\"\ntype,val\n\"list\",[1,2,3]\n\"dict\",{dis:\"Dict!\" foo}\n\"grid\",<<\nver:\"3.0\"\na,b\n1,2\n>>\n\"scalar\",\"simple string\"\n",
    "[<<\nver:\"3.0\"\na\n1\n>>, <<\nver:\"3.0\"\nb\n2\n>>]",
    "{g:<<\nver:\"3.0\"\na\n<<\nver:\"3.0\"\nb\n1\n>>\n>>}",
];

pub const JSON_HAND: &[&str] = &[
    "null",
    "true",
    "12.5",
    "-0",
    "1e19",
    "\"s \\u00e9 \\ud834\\udd1e\"",
    "{\"_kind\":\"grid\",\"cols\":[],\"rows\":[{}]}",
    "{\"_kind\":\"grid\",\"meta\":{\"ver\":\"3.0\"},\"cols\":[],\"rows\":[]}",
    "{\"_kind\":\"grid\",\"meta\":{\"ver\":\"3.0\"},\"cols\":[{\"name\":\"a\"}],\"rows\":[{},{\"a\":null},{\"b\":1}]}",
    "[{},{}]",
    "[[],{},[[]],[{}]]",
    "{\"_kind\":\"dateTime\",\"val\":\"0021-06-05T09:56:09-07:53\",\"tz\":\"Los_Angeles\"}",
    "{\"_kind\":\"dateTime\",\"val\":\"1937-06-05T09:56:09+00:20\",\"tz\":\"Amsterdam\"}",
    "{\"_kind\":\"dateTime\",\"val\":\"9999-12-31T05:15:46-11:00\",\"tz\":\"Apia\"}",
    "{\"_kind\":\"marker\"}",
    "{\"_kind\":\"na\"}",
    "{\"_kind\":\"remove\"}",
    "{\"_kind\":\"number\",\"val\":12,\"unit\":\"kW\"}",
    "{\"val\":1.5,\"unit\":\"%\",\"_kind\":\"number\"}",
    "{\"_kind\":\"ref\",\"val\":\"abc\",\"dis\":\"Dis\"}",
    "{\"_kind\":\"symbol\",\"val\":\"site\"}",
    "{\"_kind\":\"uri\",\"val\":\"http://x/y\"}",
    "{\"_kind\":\"date\",\"val\":\"2021-06-07\"}",
    "{\"_kind\":\"time\",\"val\":\"12:34:56.5\"}",
    "{\"_kind\":\"dateTime\",\"val\":\"2021-06-07T12:34:56-04:00\",\"tz\":\"New_York\"}",
    "{\"_kind\":\"dateTime\",\"val\":\"2021-06-07T12:34:56Z\"}",
    "{\"_kind\":\"coord\",\"lat\":1.5,\"lng\":-2.5}",
    "{\"_kind\":\"xstr\",\"type\":\"Bin\",\"val\":\"text/plain\"}",
    "[1,\"a\",{\"_kind\":\"marker\"},[null,true],{\"a\":{\"b\":[]}}]",
    "{\"a\":1,\"b\":{\"_kind\":\"ref\",\"val\":\"r\"},\"_kind\":\"dict\"}",
    "{\"_kind\":\"grid\",\"meta\":{\"ver\":\"3.0\",\"m\":{\"_kind\":\"marker\"}},\"cols\":[{\"name\":\"a\",\"meta\":{\"dis\":\"A\"}},{\"name\":\"b\"}],\"rows\":[{\"a\":1,\"b\":\"x\"},{\"a\":{\"_kind\":\"grid\",\"cols\":[{\"name\":\"q\"}],\"rows\":[]}},{}]}",
    "{\"_kind\":\"grid\",\"cols\":[],\"rows\":[]}",
];

fn read(ctx: &Ctx, rel: &str) -> Option<Vec<u8>> {
    fs::read(ctx.repo.join(rel)).ok()
}

/// header lines + a few rows of a corpus zinc grid
fn zinc_windows(name: &str, text: &[u8], n_windows: usize, rows_per: usize, max_len: usize) -> Vec<(String, Vec<u8>)> {
    let lines: Vec<&[u8]> = text.split(|b| *b == b'\n').collect();
    if lines.len() < 3 {
        return vec![];
    }
    let mut out = Vec::new();
    let body = &lines[2..];
    let nrows = body.iter().filter(|l| !l.is_empty()).count();
    for w in 0..n_windows {
        let start = if n_windows > 1 { w * nrows.saturating_sub(rows_per) / (n_windows - 1).max(1) } else { 0 };
        let mut doc = Vec::new();
        doc.extend_from_slice(lines[0]);
        doc.push(b'\n');
        doc.extend_from_slice(lines[1]);
        doc.push(b'\n');
        for l in body.iter().filter(|l| !l.is_empty()).skip(start).take(rows_per) {
            doc.extend_from_slice(l);
            doc.push(b'\n');
        }
        if doc.len() <= max_len {
            out.push((format!("{name}[rows {start}+{rows_per}]"), doc));
        }
    }
    out
}

pub fn zinc_snippets(ctx: &Ctx) -> Vec<(String, Vec<u8>)> {
    let mut v: Vec<(String, Vec<u8>)> = ZINC_HAND.iter().enumerate().map(|(i, s)| (format!("hand-zinc-{i}"), s.as_bytes().to_vec())).collect();
    let (nw, max_len) = if ctx.tier == Tier::Quick { (2, 2500) } else { (12, 8000) };
    if let Some(t) = read(ctx, "tests/defs/defs.zinc") {
        v.extend(zinc_windows("defs.zinc", &t, nw, 2, max_len));
    }
    if ctx.tier == Tier::Thorough {
        if let Some(t) = read(ctx, "benches/zinc/points.zinc") {
            v.extend(zinc_windows("points.zinc", &t, 4, 1, 12_000));
        }
    }
    v
}

pub fn json_snippets(ctx: &Ctx) -> Vec<(String, Vec<u8>)> {
    let mut v: Vec<(String, Vec<u8>)> = JSON_HAND.iter().enumerate().map(|(i, s)| (format!("hand-json-{i}"), s.as_bytes().to_vec())).collect();
    // rows of the shipped Hayson grid as stand-alone dict documents
    if let Some(t) = read(ctx, "benches/json/points.json") {
        if let Ok(serde_json::Value::Object(o)) = serde_json::from_slice::<serde_json::Value>(&t) {
            if let Some(serde_json::Value::Array(rows)) = o.get("rows") {
                let n = if ctx.tier == Tier::Quick { 2 } else { 12 };
                for i in 0..n {
                    let idx = i * rows.len().saturating_sub(1) / n.max(1);
                    if let Some(r) = rows.get(idx) {
                        let s = serde_json::to_vec(r).unwrap_or_default();
                        if s.len() < 3000 {
                            v.push((format!("points.json[row {idx}]"), s));
                        }
                    }
                }
            }
        }
    }
    v
}

/// Whole corpus files (for C11 whole-file scenarios).
pub fn whole_files(ctx: &Ctx) -> Vec<(String, &'static str, Vec<u8>)> {
    let mut v = Vec::new();
    if let Some(t) = read(ctx, "tests/defs/defs.zinc") {
        v.push(("defs.zinc".to_string(), "zinc", t));
    }
    if let Some(t) = read(ctx, "benches/zinc/points.zinc") {
        v.push(("points.zinc".to_string(), "zinc", t));
    }
    if let Some(t) = read(ctx, "benches/json/points.json") {
        v.push(("points.json".to_string(), "json", t));
    }
    v
}

pub const FILTER_HAND: &[&str] = &[
    "site",
    "not site",
    "site and equip",
    "site or equip and point",
    "(site or equip) and not point",
    "a->b->c",
    "a->b == 1",
    "x == \"str\\n\"",
    "x != `uri`",
    "x < 12kW",
    "x <= -3.5",
    "x > 2021-06-07",
    "x >= 12:00:00",
    "x == 2021-06-07T12:34:56-04:00 New_York",
    "x == true",
    "x == false",
    "x == @ref",
    "x == @ref \"dis\"",
    "x == ^sym",
    "siteRef *== @r1",
    "^site",
    "^hot-water and point",
    "inputs?",
    "inputs? ^air",
    "inputs? @r1",
    "containedBy? ^site @r2",
    "( ( a ) )",
    "a and (b or (c and not d)) or e->f != 2",
    " a\n and\tb ",
];

//! C09 — the filter parser is total and evaluation terminates with any resolver.
//! Half 1: every prefix / single mutation of base filters is enumerated over `Filter::try_from`
//! and `haystack_filter_parse`; multi-mutation and raw strings by seed; parenthesis ladder in
//! child processes. Half 2: the resolver is a simulated second party — a small record store with
//! ref chains, cycles, self loops and dangling refs that mutates between callbacks.

use crate::corpus;
use crate::engine::{Ctx, Engine, Tier, UnitSpec};
use crate::gen_filter::{self, FilterCfg, POOL_REFS};
use crate::gen_zinc;
use crate::harness::*;
use crate::mutate;
use crate::rng::{fnv1a, mix, Rng};
use libhaystack::defs::namespace::Namespace;
use libhaystack::filter::eval::EvalContext;
use libhaystack::filter::path::Path;
use libhaystack::filter::{Eval, Filter, PathResolver};
use libhaystack::val::*;
use std::cell::{Cell, RefCell};
use std::collections::BTreeMap;
use std::ffi::CString;

pub struct C09 {
    pub ctx: Ctx,
}

pub fn fuel_budget(len: usize) -> u64 {
    64 * len as u64 + 4096
}

fn parse_rust(text: &str) -> Result<String, String> {
    match Filter::try_from(text) {
        Ok(f) => {
            // printing an accepted filter and parsing the print must be total as well
            let printed = f.to_string();
            let again = Filter::try_from(printed.as_str()).is_ok();
            Ok(format!("{printed} reparse_ok={again}"))
        }
        Err(e) => Err(e.to_string()),
    }
}

fn parse_capi(bytes: &[u8]) -> Result<String, String> {
    use libhaystack::c_api::err::last_error_message;
    use libhaystack::c_api::filter::haystack_filter_parse;
    let cut = bytes.iter().position(|b| *b == 0).unwrap_or(bytes.len());
    let c = CString::new(&bytes[..cut]).expect("no interior NUL");
    // SAFETY: valid NUL-terminated string; the returned box and error string are owned by us
    unsafe {
        match haystack_filter_parse(c.as_ptr()) {
            Some(f) => Ok(f.to_string()),
            None => {
                let msg = last_error_message();
                if msg.is_null() {
                    Err("VERIF: haystack_filter_parse returned null without recording an error".into())
                } else {
                    let s = CString::from_raw(msg as *mut _);
                    Err(s.to_string_lossy().into_owned())
                }
            }
        }
    }
}

// ---------------------------------------------------------------------------------------------
// simulated resolver

pub const K_RECORDS: usize = 8;

pub struct SimResolver {
    pub store: RefCell<BTreeMap<String, Dict>>,
    pub rng: RefCell<Rng>,
    pub ref_calls: Cell<u64>,
    pub lookups: Cell<u64>,
    pub mutations: Cell<u64>,
    pub p_mutate: u64,
    pub max_ref_calls: u64,
    /// a resolver that itself asks the namespace (classifying the records it hands out, as a real
    /// record store would): per-mille probability per callback, and the namespace to ask
    pub p_reenter: u64,
    /// > 0: refs c0..c<len-1> resolve to the records of a long acyclic chain
    pub chain_len: u64,
    pub ns: Option<&'static Namespace<'static>>,
    pub reentries: Cell<u64>,
    /// a nested evaluation started by the resolver is running
    pub nested: Cell<bool>,
    pub nested_calls: Cell<u64>,
    /// the store renders the display name of every ref afresh each time it hands out a record
    /// (`@r1 "rec 1 #17"`): the identity of a ref is its id, whatever its display name says
    pub volatile_dis: bool,
    pub handed_out: Cell<u64>,
}


/// record i of the long chain: an equip contained by the next one
pub fn chain_record(i: u64, len: u64) -> Dict {
    let mut d = Dict::new();
    d.insert("id".into(), Value::make_ref(&format!("c{i}")));
    d.insert("equip".into(), Value::Marker);
    d.insert("x".into(), Value::make_number(i as f64));
    if i + 1 < len {
        let next = Value::make_ref(&format!("c{}", i + 1));
        d.insert("equipRef".into(), next.clone());
        d.insert("a".into(), next);
    } else {
        d.insert("site".into(), Value::Marker);
    }
    d
}

/// The record the deep-nesting filters are evaluated on.
pub fn deep_subject() -> Dict {
    let mut d = Dict::new();
    d.insert("id".into(), Value::make_ref("deep"));
    d.insert("a".into(), Value::Marker);
    d.insert("b".into(), Value::Marker);
    d.insert("x".into(), Value::make_number(1.0));
    d.insert("dis".into(), Value::make_str("d"));
    d.insert("siteRef".into(), Value::make_ref("r0"));
    d
}

const DEEP_TRUE: &[&str] = &["a", "b", "x", "x == 1", "x < 5", "x != 2", "not nope", "dis == \"d\"", "id == @deep", "not c"];
const DEEP_FALSE: &[&str] = &["nope", "c", "not a", "x == 2", "x > 5", "not x", "dis == \"e\"", "a == 1"];
const DEEP_NONLOCAL: &[&str] = &["siteRef->a", "siteRef->nope", "not siteRef->a", "siteRef->x == 1", "containedBy? @r0"];

/// A filter nested `depth` levels deep in which nothing short-circuits on [deep_subject]: at an
/// `and` level the siblings of the parenthesised operand hold, at an `or` level they do not, so an
/// evaluation visits every term - once each, if its cost is to stay linear in the text.
pub fn gen_deep_filter(rng: &mut Rng, depth: usize) -> String {
    let mode = rng.below(3); // 0: all 'and', 1: all 'or', 2: mixed
    let nonlocal = rng.chance(1, 3);
    let mut open = String::new();
    let mut close = String::new();
    for _ in 0..depth {
        let and = match mode {
            0 => true,
            1 => false,
            _ => rng.chance(1, 2),
        };
        let op = if and { " and " } else { " or " };
        let pool = if and { DEEP_TRUE } else { DEEP_FALSE };
        fn sib(rng: &mut Rng, nonlocal: bool, pool: &[&str]) -> String {
            if nonlocal && rng.chance(1, 6) {
                rng.pick(DEEP_NONLOCAL).to_string()
            } else {
                rng.pick(pool).to_string()
            }
        }
        let before = rng.below(3); // siblings in front of the parenthesis
        let after = if before == 0 { rng.range(1, 2) } else { rng.below(2) as usize };
        for _ in 0..before {
            open.push_str(&sib(rng, nonlocal, pool));
            open.push_str(op);
        }
        open.push('(');
        let mut tail = String::from(")");
        for _ in 0..after {
            tail.push_str(op);
            tail.push_str(&sib(rng, nonlocal, pool));
        }
        close.insert_str(0, &tail);
    }
    let inner = if rng.chance(1, 2) { *rng.pick(DEEP_TRUE) } else { *rng.pick(DEEP_FALSE) };
    format!("{open}{inner}{close}")
}

const REF_TAGS: &[&str] = &["siteRef", "equipRef", "spaceRef", "airRef", "hotWaterRef", "a", "b"];

pub fn gen_store(rng: &mut Rng) -> BTreeMap<String, Dict> {
    let mut store = BTreeMap::new();
    let k = rng.range(1, K_RECORDS);
    for i in 0..k {
        let id = format!("r{i}");
        let mut d = Dict::new();
        // most records know their own id; some do not (the resolver finds them by ref value anyway)
        if !rng.chance(1, 5) {
            d.insert("id".into(), Value::make_ref(&id));
        }
        for m in ["site", "equip", "point", "ahu", "space"] {
            if rng.chance(1, 3) {
                d.insert(m.into(), Value::Marker);
            }
        }
        d.insert("dis".into(), Value::make_str(&format!("rec {i}")));
        d.insert("x".into(), Value::make_number(i as f64));
        let n = rng.range(0, 3);
        for _ in 0..n {
            // chains, cycles, self loops and dangling refs all come out of drawing from the pool
            let target = match rng.below(6) {
                0 => id.clone(),
                1 => "nope".to_string(),
                _ => format!("r{}", rng.usize(K_RECORDS)),
            };
            d.insert(rng.pick_str(REF_TAGS).to_string(), Value::make_ref(&target));
        }
        if rng.chance(1, 4) {
            d.insert("c".into(), Value::make_list(vec![Value::make_ref("r1"), Value::make_number(2.0), Value::make_ref("r0")]));
        }
        if rng.chance(1, 3) {
            // a ref tag that holds a list of refs (cycles may run through such lists only)
            let k = rng.range(1, 3);
            let refs: Vec<Value> = (0..k).map(|_| Value::make_ref(&format!("r{}", rng.usize(K_RECORDS)))).collect();
            d.insert(rng.pick_str(REF_TAGS).to_string(), Value::make_list(refs));
        }
        if rng.chance(1, 4) {
            let mut inner = Dict::new();
            inner.insert("b".into(), Value::make_ref(&format!("r{}", rng.usize(K_RECORDS))));
            d.insert("a".into(), Value::make_dict(inner));
        }
        store.insert(id, d);
    }
    store
}

impl SimResolver {
    fn step(&self) {
        if self.nested.get() {
            // callbacks of the resolver's own nested query have their own budget (same size)
            let n = self.nested_calls.get() + 1;
            self.nested_calls.set(n);
            if n > self.max_ref_calls * (self.reentries.get() + 1) {
                std::panic::resume_unwind(Box::new(StepBudgetExceeded { what: "resolver-callbacks", n }));
            }
            return;
        }
        let n = self.ref_calls.get() + 1;
        self.ref_calls.set(n);
        if n > self.max_ref_calls {
            std::panic::resume_unwind(Box::new(StepBudgetExceeded { what: "resolver-callbacks", n }));
        }
        // a live database changing under the evaluation
        let mut rng = self.rng.borrow_mut();
        if rng.chance(self.p_mutate, 1000) {
            self.mutations.set(self.mutations.get() + 1);
            let mut store = self.store.borrow_mut();
            let keys: Vec<String> = store.keys().cloned().collect();
            if keys.is_empty() {
                return;
            }
            let key = keys[rng.usize(keys.len())].clone();
            match rng.below(4) {
                0 => {
                    store.remove(&key);
                }
                1 => {
                    store.insert(key, Dict::new());
                }
                2 => {
                    let tag = rng.pick_str(REF_TAGS).to_string();
                    let target = rng.pick_str(POOL_REFS).to_string();
                    if let Some(d) = store.get_mut(&key) {
                        d.insert(tag, Value::make_ref(&target));
                    }
                }
                _ => {
                    // resurrect / add a record pointing somewhere in the pool
                    let id = rng.pick_str(POOL_REFS).to_string();
                    let mut d = Dict::new();
                    d.insert("id".into(), Value::make_ref(&id));
                    d.insert(rng.pick_str(REF_TAGS).to_string(), Value::make_ref(rng.pick_str(POOL_REFS)));
                    store.insert(id, d);
                }
            }
        }
    }

    fn lookup(&self, r: &Ref) -> Option<Dict> {
        self.lookups.set(self.lookups.get() + 1);
        if self.chain_len > 0 {
            // a long acyclic chain c0 -> c1 -> ... -> c<len-1>, served without storing it
            if let Some(i) = r.value.strip_prefix('c').and_then(|d| d.parse::<u64>().ok()) {
                if i < self.chain_len {
                    return Some(chain_record(i, self.chain_len));
                }
            }
        }
        let rec = self.store.borrow().get(&r.value).cloned();
        if !self.volatile_dis {
            return rec;
        }
        let n = self.handed_out.get() + 1;
        self.handed_out.set(n);
        let fresh = |v: &Value| -> Value {
            match v {
                Value::Ref(r) => Value::make_ref_with_dis(&r.value, &format!("{} #{n}", r.value)),
                other => other.clone(),
            }
        };
        rec.map(|d| {
            let mut out = Dict::new();
            for (k, v) in d.iter() {
                let v2 = match v {
                    Value::List(l) => Value::make_list(l.iter().map(&fresh).collect()),
                    other => fresh(other),
                };
                out.insert(k.clone(), v2);
            }
            out
        })
    }
}

impl PathResolver for SimResolver {
    fn resolve_for(&self, root: &Dict, path: &Path) -> Value {
        if path.is_empty() {
            return Value::Null;
        }
        let mut cur: Value = Value::make_dict(root.clone());
        for seg in path.iter() {
            // a ref in the middle of a path is followed through the store
            if let Value::Ref(r) = &cur {
                self.step();
                cur = match self.lookup(r) {
                    Some(d) => Value::make_dict(d),
                    None => return Value::Null,
                };
            }
            cur = match &cur {
                Value::Dict(d) => d.get(&seg.to_string()).cloned().unwrap_or(Value::Null),
                _ => Value::Null,
            };
            if cur.is_null() {
                break;
            }
        }
        cur
    }

    fn resolve(&self, path: &Path) -> Value {
        let first = self.store.borrow().values().next().cloned().unwrap_or_default();
        self.resolve_for(&first, path)
    }

    fn resolve_ref(&self, reference: &Ref) -> Option<Dict> {
        self.step();
        if let Some(ns) = self.ns {
            let enter = self.rng.borrow_mut().chance(self.p_reenter, 1000);
            if enter {
                // first-time symbols: each makes the namespace fill a cache entry, in whichever shard
                // the name hashes to - if the evaluation still holds a guard there, this blocks for ever
                let n0 = self.reentries.get();
                for i in 0..200u64 {
                    let sym = Symbol::from(format!("tag{}x{}", n0, i).as_str());
                    let _ = ns.fits(&sym, &Symbol::from("entity"));
                }
                self.reentries.set(n0 + 1);
                // ... and applies a visibility rule of its own to the record it is about to hand out:
                // a relationship query evaluated on this same thread, inside the outer evaluation
                if !self.nested.get() {
                    self.nested.set(true);
                    if let (Some(rec), Ok(rule)) = (self.lookup(reference), Filter::try_from("containedBy? ^equip or containedBy? @r0")) {
                        let _ = rule.eval(&EvalContext::make(&rec, ns, self));
                    }
                    self.nested.set(false);
                }
            }
        }
        self.lookup(reference)
    }
}

fn count_terms(text: &str) -> u64 {
    // upper bound on the number of terms: every 'and' / 'or' / '(' starts at most one
    1 + text.matches(" and").count() as u64 + text.matches(" or").count() as u64 + text.matches('(').count() as u64 + text.matches("and ").count() as u64
}

fn exit_parse_filter(doc: &[u8]) {
    if let Ok(s) = std::str::from_utf8(doc) {
        let _ = Filter::try_from(s);
    }
}

pub fn run_case(case: &Case, ns: &'static Namespace<'static>) -> Outcome {
    if case.scenario == "filter-small-stack" {
        // a flat filter parsed (and evaluated once) on a thread with a small but legal stack, as the
        // first thing the process does: lazily built tables (units, zones) are built on that stack
        let kb = case.extra_usize("stack_kb").unwrap_or(256);
        let doc = case.doc_bytes();
        let mut out = Outcome::default();
        let h = std::thread::Builder::new().stack_size(kb * 1024).spawn(move || {
            if let Ok(text) = std::str::from_utf8(&doc) {
                if let Ok(f) = Filter::try_from(text) {
                    let mut d = Dict::new();
                    d.insert("x".into(), Value::make_number(1.0));
                    use libhaystack::filter::Filtered;
                    let _ = d.filter(&f);
                }
            }
        });
        let ok = h.map(|h| h.join().is_ok()).unwrap_or(false);
        out.nontrivial = true;
        out.probe("fault:small-thread-stack", 1);
        if !ok {
            out.violate("C09 panic filter-small-stack".into(), "the parsing thread panicked".into());
        }
        out.fingerprint = mix(&[kb as u64, ok as u64]);
        return out;
    }
    if case.scenario == "filter-thread-exit" {
        // the filter is parsed from the destructor of a thread-local while its thread winds down
        let mut out = Outcome::default();
        let guard_first = case.extra.get("guard_first").and_then(|v| v.as_bool()).unwrap_or(true);
        let r = decode_during_thread_exit(exit_parse_filter, &case.doc_bytes(), guard_first);
        out.nontrivial = true;
        out.probe("fault:parse-from-a-thread-local-destructor-at-thread-exit", 1);
        if let Some((msg, loc)) = r {
            out.violate(format!("C09 panic at thread exit {} {}", loc_class(&loc), msg_class(&msg)), format!("parsing a filter from a thread-local destructor while the thread exits panicked at {loc}: {msg}"));
        }
        out.fingerprint = mix(&[guard_first as u64, out.violation.is_some() as u64]);
        return out;
    }
    let doc = case.doc_bytes();
    let len = doc.len();
    let mut out = Outcome::default();
    let scenario = case.scenario.as_str();
    match scenario {
        "filter-parse" | "filter-parse-capi" => {
            // below the extern "C" frame an unwind is impossible: there the step counter reports on
            // stderr and aborts (the driver classifies the child's end as non-termination)
            let fuel = fuel_budget(len);
            let (caught, ticks) = guarded_with(fuel, scenario == "filter-parse-capi", || -> Result<String, String> {
                if scenario == "filter-parse" {
                    match std::str::from_utf8(&doc) {
                        Ok(s) => parse_rust(s),
                        Err(_) => Err("not utf-8 (entry point takes &str)".into()),
                    }
                } else {
                    parse_capi(&doc)
                }
            });
            out.steps = ticks;
            let rendered = match &caught {
                Caught::Done(Ok(s)) => {
                    out.accepted = true;
                    format!("ok {s}")
                }
                Caught::Done(Err(e)) => {
                    if e.starts_with("VERIF:") {
                        out.violate(format!("C09 {}", msg_class(e)), e.clone());
                    }
                    format!("err {e}")
                }
                Caught::Panic { msg, loc } => {
                    out.violate(format!("C09 panic {} {}", loc_class(loc), msg_class(msg)), format!("panicked at {loc}: {msg}"));
                    "panic".into()
                }
                Caught::Fuel { site, used } => {
                    out.violate(
                        "C09 non-termination filter-parse fuel".into(),
                        format!("{used} lexer/scanner steps (budget {}) for a {len}-byte filter, last tick site {site}: the parser does not terminate", fuel_budget(len)),
                    );
                    "fuel".into()
                }
                _ => "other".into(),
            };
            out.nontrivial = case.extra.contains_key("mutation");
            if let Some(m) = case.extra_str("mutation") {
                out.probe(
                    match m {
                        "truncate" => "fault:truncate",
                        "delete" => "fault:delete",
                        "duplicate" => "fault:duplicate",
                        "bitflip" => "fault:bitflip",
                        "operand-drop" => "fault:operator-without-operand",
                        "paren" => "fault:unbalanced-paren",
                        _ => "fault:corruption",
                    },
                    1,
                );
            }
            out.fingerprint = mix(&[fnv1a(rendered.as_bytes()), ticks]);
            out.probes.push(("ticks_per_byte_x100", if len > 0 { ticks * 100 / len as u64 } else { 0 }));
        }
        "filter-eval" => {
            let text = String::from_utf8_lossy(&doc).into_owned();
            let seed = case.extra.get("store_seed").and_then(|v| v.as_u64()).unwrap_or(0);
            let p_mutate = case.extra.get("p_mutate").and_then(|v| v.as_u64()).unwrap_or(0);
            let (parsed, _) = guarded(fuel_budget(len), || Filter::try_from(text.as_str()));
            let filter = match parsed {
                Caught::Done(Ok(f)) => f,
                Caught::Fuel { site, used } => {
                    out.violate(
                        "C09 non-termination filter-parse fuel".into(),
                        format!("{used} lexer/scanner steps (budget {}) for a {len}-byte filter, last tick site {site}: the parser does not terminate", fuel_budget(len)),
                    );
                    return out;
                }
                Caught::Panic { msg, loc } => {
                    out.violate(format!("C09 panic {} {}", loc_class(&loc), msg_class(&msg)), format!("panicked at {loc}: {msg}"));
                    return out;
                }
                _ => {
                    out.fingerprint = 1;
                    return out;
                }
            };
            out.accepted = true;
            let srng = Rng::new(seed);
            let store = gen_store(&mut srng.fork("store"));
            let universe = (POOL_REFS.len() + K_RECORDS) as u64;
            let terms = count_terms(&text);
            // every term follows each ref of the finite universe at most once (visited sets), and a
            // path of <= 4 segments crosses at most 4 refs per resolution
            let chain_len = case.extra.get("chain_len").and_then(|v| v.as_u64()).unwrap_or(0);
            let universe = universe + chain_len;
            let budget = terms * (universe + 2) * 6 + 16;
            let resolver = SimResolver {
                store: RefCell::new(store.clone()),
                rng: RefCell::new(srng.fork("mutations")),
                ref_calls: Cell::new(0),
                lookups: Cell::new(0),
                mutations: Cell::new(0),
                p_mutate,
                max_ref_calls: budget,
                p_reenter: case.extra.get("p_reenter").and_then(|v| v.as_u64()).unwrap_or(0),
                chain_len,
                ns: Some(ns),
                reentries: Cell::new(0),
                nested: Cell::new(false),
                nested_calls: Cell::new(0),
                volatile_dis: srng.fork("volatile-dis").chance(1, 3),
                handed_out: Cell::new(0),
            };
            let subjects: Vec<Dict> = if case.extra.contains_key("deep") {
                vec![deep_subject()]
            } else if chain_len > 0 {
                vec![chain_record(0, chain_len)]
            } else {
                store.values().cloned().collect()
            };
            // bounded liveness in term evaluations (tick site filter::Term::eval): an evaluation of
            // the filter on one record visits each of its terms at most once, and each resolver
            // callback may run the resolver's own two-term rule; the allowance is quadratic in the
            // number of terms, so only a cost that compounds with nesting depth can exceed it
            let eval_fuel = subjects.len() as u64 * (64 * terms * terms + 1024 + 4 * budget);
            let (caught, eval_ticks) = guarded(eval_fuel, || -> Vec<bool> {
                subjects
                    .iter()
                    .map(|d| {
                        resolver.ref_calls.set(0);
                        filter.eval(&EvalContext::make(d, ns, &resolver))
                    })
                    .collect()
            });
            let rendered = match &caught {
                Caught::Done(v) => format!("{v:?}"),
                Caught::Panic { msg, loc } => {
                    // the budget payload is not a string panic: check it first
                    out.violate(format!("C09 panic {} {}", loc_class(loc), msg_class(msg)), format!("evaluation panicked at {loc}: {msg}"));
                    "panic".into()
                }
                Caught::Fuel { used, .. } => {
                    out.violate(
                        "C09 non-termination filter-eval term-evaluations".into(),
                        format!("evaluation of {text:?} on {} record(s) made {used} term evaluations (allowance {eval_fuel}: quadratic in its <= {terms} terms) and was still going: its cost compounds with nesting depth, it does not terminate in any useful sense", subjects.len()),
                    );
                    "fuel".into()
                }
                Caught::Budget { n, .. } => {
                    out.violate(
                        "C09 non-termination filter-eval resolver-callbacks".into(),
                        format!("evaluation of {text:?} made {n} resolver callbacks (budget {budget}) over a universe of {universe} refs: it does not terminate"),
                    );
                    "budget".into()
                }
                _ => "other".into(),
            };
            out.steps = resolver.lookups.get();
            out.probe("fault:store-mutation-during-eval", resolver.mutations.get());
            out.probe("fault:resolver-re-enters-the-namespace", resolver.reentries.get());
            out.probe("fault:record-handed-out-with-fresh-display-names", resolver.handed_out.get());
            out.probe("reach:resolver-callbacks", resolver.lookups.get());
            out.probe("reach:term-evaluations", eval_ticks);
            if case.extra.contains_key("deep") {
                out.probe("reach:deep-filter-every-term-visited", (eval_ticks >= case.extra.get("deep").and_then(|v| v.as_u64()).unwrap_or(u64::MAX)) as u64);
            }
            out.nontrivial = resolver.lookups.get() > 0 || case.extra.contains_key("deep");
            out.fingerprint = mix(&[fnv1a(rendered.as_bytes()), resolver.lookups.get(), resolver.mutations.get()]);
        }
        other => out.violate(format!("C09 harness unknown scenario {other}"), String::new()),
    }
    out
}

fn enumerate_filter(base: &str, unit_name: &str) -> Vec<Case> {
    let b = base.as_bytes();
    let n = b.len();
    let mut cases = Vec::new();
    let mut push = |doc: &[u8], mutation: Option<&str>, origin: String| {
        for sink in ["filter-parse", "filter-parse-capi"] {
            if sink == "filter-parse" && std::str::from_utf8(doc).is_err() {
                continue;
            }
            if sink == "filter-parse-capi" && doc.contains(&0) {
                continue;
            }
            let mut c = Case::new("C09", sink, doc);
            if let Some(m) = mutation {
                c.extra.insert("mutation".into(), m.into());
            }
            c.origin = format!("{unit_name} {origin}");
            cases.push(c);
        }
    };
    push(b, None, "base".into());
    for off in 0..n {
        push(&b[..off], Some("truncate"), format!("prefix..{off}"));
        push(&mutate::delete_byte(b, off), Some("delete"), format!("delete@{off}"));
        push(&mutate::dup_byte(b, off), Some("duplicate"), format!("dup@{off}"));
        for bit in 0..8 {
            push(&mutate::flip_bit(b, off, bit), Some("bitflip"), format!("flip@{off}.{bit}"));
        }
    }
    // a multi-byte character over every window of 2, 3, 4 bytes and inserted at every offset
    for off in 0..=n {
        for ch in ["é", "€", "😀"] {
            let k = ch.len();
            if off + k <= n {
                let mut d = b.to_vec();
                d.splice(off..off + k, ch.bytes());
                push(&d, Some("utf8-splice"), format!("utf8-over@{off}+{k}"));
            }
            let mut d = b.to_vec();
            d.splice(off..off, ch.bytes());
            push(&d, Some("utf8-splice"), format!("utf8-insert@{off}+{k}"));
        }
    }
    // ill-formed UTF-8 of every kind at every offset (reaches the parser through the C entry point)
    for off in 0..=n {
        for (k, seq) in mutate::BAD_UTF8.iter().enumerate() {
            let mut d = b.to_vec();
            d.splice(off..off, seq.iter().cloned());
            push(&d, Some("bad-utf8"), format!("bad-utf8#{k}@{off}"));
        }
    }
    // operators without operands, unbalanced parentheses
    for op in ["and", "or", "not", "==", "!=", "<", "<=", ">", ">=", "*==", "->", "?"] {
        let mut from = 0;
        while let Some(i) = base[from..].find(op) {
            let at = from + i;
            // drop everything after the operator / everything before it
            push(&b[..at + op.len()], Some("operand-drop"), format!("cut-after {op}@{at}"));
            push(&b[at..], Some("operand-drop"), format!("cut-before {op}@{at}"));
            from = at + op.len();
        }
    }
    for off in 0..=n {
        push(&mutate::insert_byte(b, off, b'('), Some("paren"), format!("insert(@{off}"));
        push(&mutate::insert_byte(b, off, b')'), Some("paren"), format!("insert)@{off}"));
    }
    cases
}

impl C09 {
    fn sizes(&self) -> (usize, usize, usize, usize, usize) {
        // (generated base filters, search units, cases per search unit, eval units, cases per eval unit)
        match self.ctx.tier {
            Tier::Quick => (400, 256, 8000, 256, 6000),
            Tier::Thorough => (3000, 4096, 20000, 2048, 20000),
        }
    }

    fn deep_sizes(&self) -> (usize, usize) {
        // (units, cases per unit) of the deep-nesting evaluation family
        match self.ctx.tier {
            Tier::Quick => (16, 250),
            Tier::Thorough => (64, 2000),
        }
    }

    fn base_filters(&self) -> Vec<(String, String)> {
        let mut v: Vec<(String, String)> = corpus::FILTER_HAND.iter().enumerate().map(|(i, s)| (format!("hand-filter-{i}"), s.to_string())).collect();
        let (n, ..) = self.sizes();
        for i in 0..n {
            let mut rng = Rng::new(mix(&[self.ctx.seed, fnv1a(b"C09-base"), i as u64]));
            let cfg = FilterCfg::swarm(&mut rng);
            let mut f = gen_filter::gen_filter(&mut rng, &cfg);
            if f.len() > 120 {
                f = gen_filter::gen_filter(&mut rng, &FilterCfg { max_depth: 1, max_terms: 2, ..cfg });
            }
            if f.len() <= 200 {
                v.push((format!("gen-filter-{i}"), f));
            }
        }
        v
    }

    fn ladder(&self) -> Vec<Case> {
        let depths: Vec<usize> = match self.ctx.tier {
            Tier::Quick => vec![1, 2, 8, 64, 128, 512, 1000, 2500, 3400, 7000, 20_000, 100_000],
            Tier::Thorough => vec![1, 2, 3, 4, 8, 16, 32, 64, 128, 256, 512, 1000, 2000, 2500, 3000, 3400, 4000, 5000, 7000, 10_000, 15_000, 20_000, 50_000, 100_000],
        };
        let mut cases = Vec::new();
        for shape in ["filter-parens", "filter-mixed"] {
            for d in &depths {
                for closed in [true, false] {
                    let doc = gen_zinc::nest_doc(shape, *d, closed);
                    for sink in ["filter-parse", "filter-parse-capi"] {
                        let mut c = Case::new("C09", sink, &doc);
                        c.extra.insert("nest_shape".into(), shape.into());
                        c.extra.insert("nest_depth".into(), (*d as u64).into());
                        c.extra.insert("nest_closed".into(), closed.into());
                        c.origin = format!("ladder {shape} depth={d} closed={closed}");
                        cases.push(c);
                    }
                }
            }
        }
        // flat filters on a small (48 KiB) thread stack, first thing in a fresh process: the lazily
        // built unit and zone tables are built on that stack (the unchanged tree needs < 32 KiB)
        for f in ["x < 5kW", "x == 5", "ts > 2021-01-01T00:00:00-05:00 New_York", "a == `u` and b->c", "d >= 2021-01-01 and t < 12:00:00", "r == @r \"dis\" or ^sym"] {
            let mut c = Case::new("C09", "filter-small-stack", f.as_bytes());
            c.extra.insert("stack_kb".into(), 48u64.into());
            c.origin = format!("small stack 48 KiB: {f}");
            cases.push(c);
        }
        // long acyclic ref chains under the evaluator (one record per hop, served lazily)
        let chain_lens: Vec<u64> = match self.ctx.tier {
            Tier::Quick => vec![1000, 100_000],
            Tier::Thorough => vec![10, 1000, 10_000, 100_000, 1_000_000],
        };
        for n in &chain_lens {
            for filter in [format!("containedBy? @c{}", n - 1), "containedBy? @nope".to_string(), format!("a *== @c{}", n - 1), "a *== @nope".to_string(), format!("equipRef *== @c{}", n / 2), "containedBy? ^site @nope".to_string()] {
                let mut c = Case::new("C09", "filter-eval", filter.as_bytes());
                c.extra.insert("chain_len".into(), (*n).into());
                c.extra.insert("store_seed".into(), 1u64.into());
                c.extra.insert("nest_shape".into(), "eval-ref-chain".into());
                c.extra.insert("nest_depth".into(), (*n).into());
                c.origin = format!("length ladder eval-ref-chain n={n} {filter}");
                cases.push(c);
            }
        }
        // length ladders: long flat chains and long literals (no nesting)
        let lengths: Vec<usize> = match self.ctx.tier {
            Tier::Quick => vec![1000, 100_000],
            Tier::Thorough => vec![10, 1000, 10_000, 100_000, 1_000_000],
        };
        for shape in ["or-chain", "and-chain", "eq-or-chain", "path-chain", "filter-long-str", "filter-long-id"] {
            for n in &lengths {
                let doc = gen_zinc::long_doc(shape, *n);
                for sink in ["filter-parse", "filter-parse-capi"] {
                    let mut c = Case::new("C09", sink, &doc);
                    c.extra.insert("nest_shape".into(), shape.into());
                    c.extra.insert("nest_depth".into(), (*n as u64).into());
                    c.origin = format!("length ladder {shape} n={n}");
                    cases.push(c);
                }
            }
        }
        cases
    }

    pub fn namespace(&self) -> &'static Namespace<'static> {
        load_namespace(&self.ctx)
    }
}

/// The real defs shipped with the repository (for `rel?` and `^sym` terms); leaked once per process.
pub fn load_namespace(ctx: &Ctx) -> &'static Namespace<'static> {
    thread_local! {
        static NS: Cell<Option<&'static Namespace<'static>>> = const { Cell::new(None) };
    }
    NS.with(|slot| {
        if let Some(ns) = slot.get() {
            return ns;
        }
        let text = std::fs::read_to_string(ctx.repo.join("tests/defs/defs.zinc")).unwrap_or_default();
        let grid = libhaystack::encoding::zinc::decode::from_str(&text).ok().and_then(|v| Grid::try_from(&v).ok()).unwrap_or_default();
        let ns: &'static Namespace<'static> = Box::leak(Box::new(Namespace::make(grid)));
        slot.set(Some(ns));
        ns
    })
}

impl Engine for C09 {
    fn prop(&self) -> &'static str {
        "C09"
    }

    fn units(&self) -> Vec<UnitSpec> {
        let mut units = Vec::new();
        let mut id = 0u64;
        for (name, _) in self.base_filters() {
            units.push(UnitSpec { id, name: format!("enum:{name}"), isolated: false, exhaustive: true });
            id += 1;
        }
        let (_, search, _, evals, _) = self.sizes();
        for i in 0..search {
            units.push(UnitSpec { id, name: format!("search:{i}"), isolated: false, exhaustive: false });
            id += 1;
        }
        for i in 0..evals {
            units.push(UnitSpec { id, name: format!("eval:{i}"), isolated: false, exhaustive: false });
            id += 1;
        }
        for i in 0..self.deep_sizes().0 {
            units.push(UnitSpec { id, name: format!("evaldeep:{i}"), isolated: false, exhaustive: false });
            id += 1;
        }
        units.push(UnitSpec { id, name: "ladder".into(), isolated: true, exhaustive: false });
        id += 1;
        for b in gen_zinc::BOUNDARIES {
            units.push(UnitSpec { id, name: format!("boundary:{b}"), isolated: false, exhaustive: true });
            id += 1;
        }
        for part in 0..8 {
            units.push(UnitSpec { id, name: format!("fields:{part}"), isolated: false, exhaustive: true });
            id += 1;
        }
        units.push(UnitSpec { id, name: "thread-exit".into(), isolated: false, exhaustive: true });
        id += 1;
        // two-fault enumeration for the short base filters
        let max2 = match self.ctx.tier {
            Tier::Quick => 12,
            Tier::Thorough => 28,
        };
        for (name, text) in self.base_filters() {
            if text.len() <= max2 && !text.is_empty() {
                units.push(UnitSpec { id, name: format!("enum2:{name}"), isolated: false, exhaustive: true });
                id += 1;
            }
        }
        units
    }

    fn cases(&self, unit: &UnitSpec) -> Box<dyn Iterator<Item = Case> + '_> {
        if let Some(name) = unit.name.strip_prefix("enum:") {
            let base = self.base_filters().into_iter().find(|(n, _)| n == name).expect("unit exists").1;
            return Box::new(enumerate_filter(&base, &unit.name).into_iter());
        }
        if unit.name == "ladder" {
            return Box::new(self.ladder().into_iter());
        }
        if unit.name == "thread-exit" {
            let mut cases = Vec::new();
            for f in corpus::FILTER_HAND.iter() {
                for guard_first in [true, false] {
                    let mut c = Case::new("C09", "filter-thread-exit", f.as_bytes());
                    c.extra.insert("guard_first".into(), guard_first.into());
                    c.origin = format!("thread-exit filter guard_first={guard_first}");
                    cases.push(c);
                }
            }
            return Box::new(cases.into_iter());
        }
        if let Some(part) = unit.name.strip_prefix("fields:") {
            // every value of the two-digit fields of date / time / timestamp literals in a comparison
            let part: usize = part.parse().unwrap_or(0);
            let uname = unit.name.clone();
            return Box::new(gen_zinc::field_sweep().into_iter().enumerate().filter(move |(i, _)| i % 8 == part).flat_map(move |(_, lit)| {
                let text = format!("ts >= {lit} and x");
                let uname = uname.clone();
                ["filter-parse", "filter-parse-capi"].into_iter().map(move |sink| {
                    let mut c = Case::new("C09", sink, text.as_bytes());
                    c.extra.insert("mutation".into(), "field-value".into());
                    c.origin = format!("{uname} {lit}");
                    c
                })
            }));
        }
        if let Some(b) = unit.name.strip_prefix("boundary:") {
            // every token kind straddling a buffer-size boundary, a little text after it
            let boundary: usize = b.parse().unwrap_or(4096);
            let uname = unit.name.clone();
            return Box::new((0..gen_zinc::FILTER_UNIT.len()).flat_map(move |shift| {
                let doc = gen_zinc::boundary_doc("", gen_zinc::FILTER_UNIT, "z", b' ', boundary, shift);
                let uname = uname.clone();
                ["filter-parse", "filter-parse-capi"].into_iter().map(move |sink| {
                    let mut c = Case::new("C09", sink, &doc);
                    c.extra.insert("mutation".into(), "boundary".into());
                    c.origin = format!("{uname} shift={shift}");
                    c
                })
            }));
        }
        if let Some(name) = unit.name.strip_prefix("enum2:") {
            let base = self.base_filters().into_iter().find(|(n, _)| n == name).expect("unit exists").1.into_bytes();
            let uname = unit.name.clone();
            let nbits = base.len() * 8;
            // every pair of single-bit flips through both entry points
            return Box::new((0..nbits).flat_map(move |a| {
                let first = mutate::flip_bit(&base, a / 8, (a % 8) as u8);
                let uname = uname.clone();
                let mut out: Vec<Case> = Vec::new();
                for b in a + 1..nbits {
                    let doc = mutate::flip_bit(&first, b / 8, (b % 8) as u8);
                    for sink in ["filter-parse", "filter-parse-capi"] {
                        if (sink == "filter-parse" && std::str::from_utf8(&doc).is_err()) || (sink == "filter-parse-capi" && doc.contains(&0)) {
                            continue;
                        }
                        let mut c = Case::new("C09", sink, &doc);
                        c.extra.insert("mutation".into(), "bitflip".into());
                        c.extra.insert("mutations".into(), "bitflip+bitflip".into());
                        c.origin = format!("{uname} flip@{}.{}+flip@{}.{}", a / 8, a % 8, b / 8, b % 8);
                        out.push(c);
                    }
                }
                out.into_iter()
            }));
        }
        let (_, _, per_search, _, per_eval) = self.sizes();
        let uname = unit.name.clone();
        if unit.name.starts_with("evaldeep:") {
            let unit_seed = mix(&[self.ctx.seed, fnv1a(b"C09-evaldeep"), unit.id]);
            let per = self.deep_sizes().1;
            return Box::new((0..per as u64).map(move |sub| {
                let rng = Rng::new(mix(&[unit_seed, sub]));
                let mut wl = rng.fork("workload");
                let depth = *wl.pick(&[3usize, 8, 20, 24, 28, 32, 40, 48, 64, 96]);
                let text = gen_deep_filter(&mut wl, depth);
                let mut c = Case::new("C09", "filter-eval", text.as_bytes());
                c.extra.insert("store_seed".into(), wl.next_u64().into());
                c.extra.insert("p_mutate".into(), (*wl.pick(&[0u64, 0, 100])).into());
                c.extra.insert("p_reenter".into(), (*wl.pick(&[0u64, 0, 300])).into());
                c.extra.insert("deep".into(), (depth as u64).into());
                c.origin = format!("{uname} sub={sub} depth={depth}");
                c
            }));
        }
        if unit.name.starts_with("search:") {
            let unit_seed = mix(&[self.ctx.seed, fnv1a(b"C09-search"), unit.id]);
            return Box::new((0..per_search as u64).map(move |sub| {
                let rng = Rng::new(mix(&[unit_seed, sub]));
                let mut wl = rng.fork("workload");
                let mut fl = rng.fork("faults");
                let mut text: Vec<u8> = if wl.chance(9, 10) {
                    let cfg = FilterCfg::swarm(&mut wl);
                    gen_filter::gen_filter(&mut wl, &cfg).into_bytes()
                } else {
                    const RAW: &[u8] = b"()<>=!*-?^@\"`\\ andortx01.:_>\n";
                    let n = wl.range(0, 40);
                    (0..n).map(|_| if wl.chance(4, 5) { *wl.pick(RAW) } else { wl.below(256) as u8 }).collect()
                };
                let n_mut = *fl.pick(&[0usize, 1, 1, 2, 3, 5]);
                let mut names = Vec::new();
                let dcfg = FilterCfg::swarm(&mut wl);
                let donor = gen_filter::gen_filter(&mut wl, &dcfg).into_bytes();
                for _ in 0..n_mut {
                    names.push(mutate::random_op(&mut fl, &mut text, &[], &donor, &[]));
                }
                let capi = fl.chance(1, 3) || std::str::from_utf8(&text).is_err();
                if capi {
                    text.retain(|b| *b != 0);
                }
                let mut c = Case::new("C09", if capi { "filter-parse-capi" } else { "filter-parse" }, &text);
                if !names.is_empty() {
                    c.extra.insert("mutation".into(), names[0].into());
                    c.extra.insert("mutations".into(), names.join("+").into());
                }
                c.origin = format!("{uname} sub={sub}");
                c
            }));
        }
        // eval units: filters over the small universe against a mutating record store
        let unit_seed = mix(&[self.ctx.seed, fnv1a(b"C09-eval"), unit.id]);
        Box::new((0..per_eval as u64).map(move |sub| {
            let rng = Rng::new(mix(&[unit_seed, sub]));
            let mut wl = rng.fork("workload");
            let mut cfg = FilterCfg::swarm(&mut wl);
            cfg.small_universe = true;
            let text = gen_filter::gen_filter(&mut wl, &cfg);
            let mut c = Case::new("C09", "filter-eval", text.as_bytes());
            c.extra.insert("store_seed".into(), wl.next_u64().into());
            c.extra.insert("p_mutate".into(), (*wl.pick(&[0u64, 0, 100, 400, 900])).into());
            c.extra.insert("p_reenter".into(), (*wl.pick(&[0u64, 0, 0, 30, 300, 1000])).into());
            c.origin = format!("{uname} sub={sub}");
            c
        }))
    }

    fn run(&self, case: &Case) -> Outcome {
        run_case(case, self.namespace())
    }

    fn isolate_every(&self, _unit: &UnitSpec) -> Option<u64> {
        // process-wide or per-thread state left behind by earlier decodes must not change a result
        Some(512)
    }

    fn rule(&self) -> String {
        "parse half: (base filter x single fault) enumerated [every prefix, byte delete/duplicate, every bit flip kept when still UTF-8 (all of them for the C entry point), operator-with-operand-cut, '(' / ')' inserted at every offset] over Filter::try_from and haystack_filter_parse + seeded multi-mutation/raw strings + parenthesis ladder 1..10^5 in isolated child processes; eval half: seeded (filter over a small tag/ref universe) x (record store of <=8 records with ref chains, cycles, self loops, dangling refs) x (store mutations injected between resolver callbacks), evaluated on every record against the real defs namespace; a case is non-trivial when the text was mutated/truncated (parse) or at least one resolver callback happened (eval); distinct = distinct (entry point, text, store seed, mutation rate)".into()
    }

    fn components(&self) -> (Vec<&'static str>, Vec<&'static str>) {
        (
            vec!["filter::lexer", "filter::parser", "filter::nodes (eval)", "zinc scanner + scalar parsers", "defs::Namespace::has_relationship / reflect / fits", "c_api::filter::haystack_filter_parse", "c_api::err"],
            vec!["record store behind PathResolver (SimResolver)"],
        )
    }
}

//! Command line shared by the harness binaries (haysim, nssim): units / cases / run-case / worker /
//! merge-distinct. The binary supplies how to build an engine and how to run an explicit case.

use crate::engine::{Ctx, Engine, Tier, UnitSpec};
use crate::harness::*;
use crate::rng;
use std::collections::BTreeMap;
use std::fs::{File, OpenOptions};
use std::io::Write;
use std::os::unix::fs::FileExt;
use std::path::PathBuf;

pub type EngineFor = fn(&str, Ctx) -> Box<dyn Engine>;
pub type RunExplicit = fn(&Case, &Ctx) -> Outcome;

pub fn arg<'a>(args: &'a [String], name: &str) -> Option<&'a str> {
    args.iter().position(|a| a == name).and_then(|i| args.get(i + 1)).map(|s| s.as_str())
}

pub fn ctx_from(args: &[String]) -> Ctx {
    Ctx {
        repo: PathBuf::from(arg(args, "--repo").map(|s| s.to_string()).or_else(|| std::env::var("VERIF_REPO").ok()).unwrap_or_else(|| "/repo".into())),
        tier: if arg(args, "--tier") == Some("thorough") { Tier::Thorough } else { Tier::Quick },
        seed: arg(args, "--seed").and_then(|s| s.parse().ok()).unwrap_or(20240607),
    }
}

fn sample_of(case: &Case, out: &Outcome) -> serde_json::Value {
    let doc = case.doc_bytes();
    let shown: String = String::from_utf8_lossy(&doc[..doc.len().min(160)]).into_owned();
    // call histories carry their C strings as hex: a readable rendering for the evidence file
    let calls: Vec<String> = case
        .extra
        .get("ops")
        .and_then(|o| o.as_array())
        .map(|ops| {
            ops.iter()
                .map(|o| {
                    let strs: Vec<String> = o.get("s").and_then(|s| s.as_array()).map(|a| a.iter().map(|x| x.as_str().map_or("NULL".to_string(), |h| format!("{:?}", String::from_utf8_lossy(&unhex(h))))).collect()).unwrap_or_default();
                    format!("t{} {}(h={} n={} s=[{}])", o.get("t").and_then(|t| t.as_u64()).unwrap_or(0), o.get("f").and_then(|f| f.as_str()).unwrap_or("?"), o.get("h").map(|h| h.to_string()).unwrap_or_default(), o.get("n").map(|h| h.to_string()).unwrap_or_default(), strs.join(", "))
                })
                .collect()
        })
        .unwrap_or_default();
    serde_json::json!({
        "calls_readable": calls,
        "scenario": case.scenario,
        "origin": case.origin,
        "doc_prefix": shown,
        "doc_len": doc.len(),
        "read_plan": case.read,
        "extra": case.extra,
        "accepted": out.accepted,
        "steps": out.steps,
        "violation": out.violation.as_ref().map(|v| v.signature.clone()),
    })
}

fn cmd_units(args: &[String], engine_for: EngineFor) {
    let prop = arg(args, "--prop").expect("--prop");
    let eng = engine_for(prop, ctx_from(args));
    let units: Vec<serde_json::Value> = eng
        .units()
        .iter()
        .map(|u| serde_json::json!({"id": u.id, "name": u.name, "isolated": u.isolated, "exhaustive": u.exhaustive}))
        .collect();
    let (real, stub) = eng.components();
    println!("{}", serde_json::json!({"units": units, "rule": eng.rule(), "components": {"real": real, "stub": stub}}));
}

fn cmd_cases(args: &[String], engine_for: EngineFor) {
    let prop = arg(args, "--prop").expect("--prop");
    let eng = engine_for(prop, ctx_from(args));
    let unit_id: u64 = arg(args, "--unit").and_then(|s| s.parse().ok()).expect("--unit");
    let sub: Option<usize> = arg(args, "--sub").and_then(|s| s.parse().ok());
    let units = eng.units();
    let unit = units.iter().find(|u| u.id == unit_id).expect("unit id");
    let out = std::io::stdout();
    let mut out = out.lock();
    for (i, c) in eng.cases(unit).enumerate() {
        if sub.is_none() || sub == Some(i) {
            let _ = writeln!(out, "{}", serde_json::to_string(&c).unwrap());
        }
        if sub.is_some_and(|s| i >= s) {
            break;
        }
    }
}

/// Fingerprint of a case run alone in a fresh child process of this binary (`None`: the child did
/// not end normally).
enum Iso {
    Fingerprint(String),
    /// the child was killed by a signal (abort, segmentation fault): what it printed last
    Died(String),
    Unknown,
}

fn isolated_fingerprint(case: &Case, args: &[String]) -> Option<String> {
    match isolated_run(case, args) {
        Iso::Fingerprint(f) => Some(f),
        _ => None,
    }
}

fn isolated_run(case: &Case, args: &[String]) -> Iso {
    isolated_run_inner(case, args, None).unwrap_or(Iso::Unknown)
}

/// the replay of a finding does not know which environment the worker's comparison child had: all of them
fn isolated_run_all_envs(case: &Case, args: &[String], in_sequence_fp: &str) -> Iso {
    let mut last = Iso::Unknown;
    for k in 0..3 {
        match isolated_run_inner(case, args, Some(k)).unwrap_or(Iso::Unknown) {
            Iso::Died(d) => return Iso::Died(d),
            Iso::Fingerprint(f) if f != in_sequence_fp => return Iso::Fingerprint(f),
            other => last = other,
        }
    }
    last
}

fn isolated_run_inner(case: &Case, args: &[String], env_choice: Option<u64>) -> Option<Iso> {
    static N: std::sync::atomic::AtomicU64 = std::sync::atomic::AtomicU64::new(0);
    let n = N.fetch_add(1, std::sync::atomic::Ordering::Relaxed);
    let dir = std::env::temp_dir();
    let path = dir.join(format!("verif-iso-{}-{}.json", std::process::id(), n));
    std::fs::write(&path, serde_json::to_string(case).ok()?).ok()?;
    let exe = std::env::current_exe().ok()?;
    let repo = arg(args, "--repo").unwrap_or("/repo");
    use std::os::unix::process::CommandExt;
    extern "C" {
        fn prctl(option: i32, arg2: u64, arg3: u64, arg4: u64, arg5: u64) -> i32;
        fn sched_setaffinity(pid: i32, cpusetsize: usize, mask: *const u64) -> i32;
    }
    // comparison children live in different environments: all CPUs, one CPU, three CPUs (so that
    // available_parallelism() - DashMap's shard count, worker counts - differs, incl. a count that
    // is not a power of two). Hash seeds and allocation addresses differ from the worker's anyway.
    let cpu_mask: u64 = [0u64, 0b1, 0b111][(env_choice.unwrap_or(n) % 3) as usize];
    let mut cmd = std::process::Command::new(exe);
    cmd.arg("run-case").arg(&path).arg("--repo").arg(repo).env_remove("VERIF_ANNOUNCE").stdout(std::process::Stdio::piped()).stderr(std::process::Stdio::piped());
    // SAFETY: prctl(PR_SET_PDEATHSIG, SIGKILL) is async-signal-safe: the child dies with this worker
    unsafe {
        cmd.pre_exec(move || {
            prctl(1, 9, 0, 0, 0);
            if cpu_mask != 0 {
                let mask = [cpu_mask; 1];
                sched_setaffinity(0, 8, mask.as_ptr());
            }
            Ok(())
        });
    }
    let spawned = cmd.spawn();
    let mut child = match spawned {
        Ok(c) => c,
        Err(_) => {
            let _ = std::fs::remove_file(&path);
            return None;
        }
    };
    // a case takes milliseconds; a child that needs a minute is stuck (the worker's own run of the
    // case decides about hangs, not this comparison)
    let t0 = std::time::Instant::now();
    let status = loop {
        match child.try_wait() {
            Ok(Some(st)) => break Some(st),
            Ok(None) if t0.elapsed().as_secs() >= 60 => {
                let _ = child.kill();
                let _ = child.wait();
                break None;
            }
            Ok(None) => std::thread::sleep(std::time::Duration::from_millis(2)),
            Err(_) => break None,
        }
    };
    let _ = std::fs::remove_file(&path);
    let status = status?;
    let mut text = String::new();
    let mut err_text = String::new();
    {
        use std::io::Read;
        child.stdout.take()?.read_to_string(&mut text).ok()?;
        let mut raw = Vec::new();
        let _ = child.stderr.take()?.read_to_end(&mut raw);
        err_text = String::from_utf8_lossy(&raw).into_owned();
    }
    {
        use std::os::unix::process::ExitStatusExt;
        if let Some(sig) = status.signal() {
            let tail: String = err_text.lines().rev().take(4).collect::<Vec<_>>().into_iter().rev().collect::<Vec<_>>().join(" | ");
            return Some(Iso::Died(format!("signal {sig} with CPU mask {cpu_mask:#b}: {tail}")));
        }
    }
    let v: serde_json::Value = serde_json::from_str(text.trim().rsplit('\n').next()?).ok()?;
    v.get("fingerprint").and_then(|f| f.as_str()).map(|s| Iso::Fingerprint(s.to_string()))
}

/// A case that stands for "the path of worker `shard` from `from_unit` up to case `sub` of `unit`,
/// in one process": the replay of a failure that needs what the process did before.
fn shard_prefix_case(prop: &str, args: &[String], shard: &str, from_unit: u64, unit: u64, sub: u64) -> Case {
    let mut c = Case::new(prop, "shard-prefix", b"");
    c.extra.insert("shard".into(), shard.into());
    c.extra.insert("tier".into(), arg(args, "--tier").unwrap_or("quick").into());
    c.extra.insert("seed".into(), arg(args, "--seed").and_then(|s| s.parse::<u64>().ok()).unwrap_or(20240607).into());
    c.extra.insert("from_unit".into(), from_unit.into());
    c.extra.insert("unit".into(), unit.into());
    c.extra.insert("sub".into(), sub.into());
    c.origin = format!("worker path of shard {shard}: units from {from_unit}, up to unit {unit} case {sub}, in one process");
    c
}

/// Re-executes a worker's deterministic path up to (unit, sub) in this process; the last case is
/// then also run alone in a child process and the fingerprints are compared. A death on the way
/// is the replayed failure itself.
fn run_shard_prefix(case: &Case, args: &[String], engine_for: EngineFor) -> Outcome {
    let mut ctx = ctx_from(args);
    ctx.tier = if case.extra_str("tier") == Some("thorough") { Tier::Thorough } else { Tier::Quick };
    ctx.seed = case.extra.get("seed").and_then(|v| v.as_u64()).unwrap_or(ctx.seed);
    let eng = engine_for(&case.prop, ctx);
    let (si, sn) = case.extra_str("shard").and_then(|s| s.split_once('/')).map(|(a, b)| (a.parse::<u64>().unwrap_or(0), b.parse::<u64>().unwrap_or(1))).unwrap_or((0, 1));
    let (from_unit, unit_id, sub) = (case.extra_usize("from_unit").unwrap_or(0) as u64, case.extra_usize("unit").unwrap_or(0) as u64, case.extra_usize("sub").unwrap_or(0));
    let announce = std::env::var("VERIF_ANNOUNCE").is_ok();
    let mut out = Outcome::default();
    for unit in eng.units() {
        if unit.isolated || unit.id % sn != si || unit.id < from_unit || unit.id > unit_id {
            continue;
        }
        for (i, c) in eng.cases(&unit).enumerate() {
            let last = unit.id == unit_id && i == sub;
            if announce && last {
                eprintln!("ANNOUNCE {} last-case-of-the-path", i);
            }
            let o = eng.run(&c);
            if last {
                out = o;
                if let Some(v) = out.violation.as_mut() {
                    v.signature.push_str(" [needs the worker path before it]");
                }
                if out.violation.is_none() {
                    let run = isolated_run_all_envs(&c, args, &format!("{:016x}", out.fingerprint));
                    if let Iso::Died(desc) = &run {
                        out.violate(
                            format!("{} case dies when run alone in a fresh process with another CPU set (environment)", case.prop),
                            format!("case {}:{} completes after the worker path but its run alone ended with {desc}", unit.id, sub),
                        );
                        return out;
                    }
                    match (match run { Iso::Fingerprint(f) => Some(f), _ => None }) {
                        Some(f) if f != format!("{:016x}", out.fingerprint) => out.violate(
                            format!("{} result depends on what the process did before or on its environment (process-wide state, CPU count)", case.prop),
                            format!("case {}:{} gave fingerprint {:016x} after the worker path, {} alone in a fresh process: {}", unit.id, sub, out.fingerprint, f, c.origin),
                        ),
                        _ => {}
                    }
                }
                return out;
            }
            if unit.id == unit_id && i > sub {
                break;
            }
        }
    }
    out
}

fn cmd_run_case(args: &[String], run_explicit: RunExplicit, engine_for: EngineFor) {
    let path = args.get(2).expect("case file");
    let text = std::fs::read_to_string(path).expect("read case file");
    let v: serde_json::Value = serde_json::from_str(&text).expect("case json");
    // a replay file wraps the case; a bare case is accepted too
    let case: Case = if v.get("case").is_some() { serde_json::from_value(v["case"].clone()).expect("case") } else { serde_json::from_value(v).expect("case") };
    let out = if case.scenario == "shard-prefix" { run_shard_prefix(&case, args, engine_for) } else { run_explicit(&case, &ctx_from(args)) };
    println!(
        "{}",
        serde_json::json!({
            "violation": out.violation,
            "fingerprint": format!("{:016x}", out.fingerprint),
            "accepted": out.accepted,
            "nontrivial": out.nontrivial,
            "steps": out.steps,
        })
    );
    std::process::exit(if out.violation.is_some() { 1 } else { 0 });
}

fn cmd_worker(args: &[String], engine_for: EngineFor) {
    let prop = arg(args, "--prop").expect("--prop");
    let eng = engine_for(prop, ctx_from(args));
    let shard = arg(args, "--shard").unwrap_or("0/1");
    let (si, sn) = shard.split_once('/').map(|(a, b)| (a.parse::<u64>().unwrap(), b.parse::<u64>().unwrap())).unwrap();
    let progress = arg(args, "--progress").map(|p| OpenOptions::new().create(true).write(true).truncate(false).open(p).expect("progress file"));
    let mut out = OpenOptions::new().create(true).append(true).open(arg(args, "--out").expect("--out")).expect("out file");
    let mut distinct = arg(args, "--distinct").map(|p| OpenOptions::new().create(true).append(true).open(p).expect("distinct file"));
    // units already completed by an earlier incarnation of this shard, and cases to skip (they killed it)
    let done: Vec<u64> = arg(args, "--done").map(|s| s.split(',').filter_map(|x| x.parse().ok()).collect()).unwrap_or_default();
    let skip: Vec<(u64, u64)> = arg(args, "--skip")
        .map(|s| s.split(',').filter_map(|x| x.split_once(':').and_then(|(a, b)| Some((a.parse().ok()?, b.parse().ok()?)))).collect())
        .unwrap_or_default();
    let only: Option<u64> = arg(args, "--only-unit").and_then(|s| s.parse().ok());
    let max_viol_per_unit = 25usize;
    let mut first_unit: Option<u64> = None;
    for unit in eng.units() {
        if unit.isolated || unit.id % sn != si || done.contains(&unit.id) || only.is_some_and(|o| o != unit.id) {
            continue;
        }
        let iso = IsoCtx { viol_path: arg(args, "--viol").map(|s| s.to_string()), args, shard, first_unit: first_unit.get_or_insert(unit.id).to_owned() };
        let res = run_unit(eng.as_ref(), &unit, progress.as_ref(), &skip, distinct.as_mut(), max_viol_per_unit, &iso);
        writeln!(out, "{}", serde_json::to_string(&res).unwrap()).expect("write result");
        out.flush().ok();
    }
}

struct IsoCtx<'a> {
    /// violations are also appended here as they happen: a unit whose later case kills the
    /// worker never writes its result line, its earlier violations must not be lost with it
    viol_path: Option<String>,
    args: &'a [String],
    shard: &'a str,
    /// first unit this worker process ran (the start of its path)
    first_unit: u64,
}

fn run_unit(eng: &dyn Engine, unit: &UnitSpec, progress: Option<&File>, skip: &[(u64, u64)], distinct: Option<&mut File>, max_viol: usize, iso: &IsoCtx) -> UnitResult {
    let isolate_every = eng.isolate_every(unit);
    let mut iso_violations = 0usize;
    let mut res = UnitResult { unit: unit.id, name: unit.name.clone(), exhaustive: unit.exhaustive, ..Default::default() };
    let mut probes: BTreeMap<String, u64> = BTreeMap::new();
    let mut ids: Vec<u8> = Vec::new();
    let mut fp: u64 = 0xcbf2_9ce4_8422_2325;
    for (sub, case) in eng.cases(unit).enumerate() {
        if skip.contains(&(unit.id, sub as u64)) {
            continue;
        }
        if let Some(p) = progress {
            let mut buf = [0u8; 16];
            buf[..8].copy_from_slice(&unit.id.to_le_bytes());
            buf[8..].copy_from_slice(&(sub as u64).to_le_bytes());
            let _ = p.write_at(&buf, 0);
        }
        let mut out = eng.run(&case);
        let mut explicit_override: Option<Case> = None;
        if let Some(k) = isolate_every {
            if out.violation.is_none() && sub as u64 % k == 0 && iso_violations < 3 {
                let run = isolated_run(&case, iso.args);
                if let Iso::Died(desc) = &run {
                    iso_violations += 1;
                    out.violate(
                        format!("{} case dies when run alone in a fresh process with another CPU set (environment)", eng.prop()),
                        format!("case {}:{} completes in the worker process but its run alone ended with {desc}: {}", unit.id, sub, case.origin),
                    );
                    explicit_override = Some(shard_prefix_case(eng.prop(), iso.args, iso.shard, iso.first_unit, unit.id, sub as u64));
                }
                if let Iso::Fingerprint(f) = run {
                    out.probes.push(("reach:case-compared-with-its-run-alone-in-a-fresh-process", 1));
                    if eng.isolate_compares_fingerprints() && f != format!("{:016x}", out.fingerprint) {
                        iso_violations += 1;
                        out.violate(
                            format!("{} result depends on what the process did before or on its environment (process-wide state, CPU count)", eng.prop()),
                            format!("case {}:{} gave fingerprint {:016x} in the worker process, {} alone in a fresh process: {}", unit.id, sub, out.fingerprint, f, case.origin),
                        );
                        explicit_override = Some(shard_prefix_case(eng.prop(), iso.args, iso.shard, iso.first_unit, unit.id, sub as u64));
                    }
                }
            }
        }
        res.cases += 1;
        res.steps += out.steps;
        if out.accepted {
            res.accepted += 1;
        }
        if out.nontrivial {
            res.nontrivial += 1;
            ids.extend_from_slice(&out.distinct_key.unwrap_or_else(|| case.identity()).to_le_bytes());
            if res.samples.len() < 2 && (res.nontrivial == 1 || res.nontrivial == 97) {
                res.samples.push(sample_of(&case, &out));
            }
        }
        for (name, n) in &out.probes {
            if *name == "ticks_per_byte_x100" {
                res.max_ticks_per_byte_x100 = res.max_ticks_per_byte_x100.max(*n);
            } else if name.starts_with("max:") {
                let e = probes.entry(name.to_string()).or_insert(0);
                *e = (*e).max(*n);
            } else {
                *probes.entry(name.to_string()).or_insert(0) += n;
            }
        }
        fp = rng::mix(&[fp, sub as u64, out.fingerprint]);
        if let Ok(path) = std::env::var("VERIF_DUMP_FP") {
            // debugging aid for determinism triage: one line per case
            if let Ok(mut f) = OpenOptions::new().create(true).append(true).open(path) {
                let _ = writeln!(f, "{} {} {:016x} {}", unit.id, sub, out.fingerprint, case.scenario);
            }
        }
        if let Some(v) = out.violation {
            res.violations_total += 1;
            // keep the first few per signature
            let same = res.violations.iter().filter(|(x, _)| x.signature == v.signature).count();
            if same < 3 && res.violations.len() < max_viol {
                let mut c = explicit_override.unwrap_or_else(|| eng.explicit(&case));
                if c.scenario != "shard-prefix" {
                    // where on the worker's path the case ran: lets the driver replay the path when
                    // the violation needs what the process did before
                    c.extra.insert("_path".into(), serde_json::json!({"shard": iso.shard, "from_unit": iso.first_unit, "unit": unit.id, "sub": sub}));
                }
                if let Some(p) = &iso.viol_path {
                    if let Ok(mut f) = OpenOptions::new().create(true).append(true).open(p) {
                        let _ = writeln!(f, "{}", serde_json::json!({"unit": unit.id, "violation": v, "case": c}));
                    }
                }
                res.violations.push((v, c));
            }
        }
    }
    res.fingerprint = fp;
    res.probes = probes;
    if let Some(d) = distinct {
        let _ = d.write_all(&ids);
    }
    res
}

fn cmd_merge_distinct(args: &[String]) {
    let mut all: Vec<u64> = Vec::new();
    for p in &args[2..] {
        if let Ok(b) = std::fs::read(p) {
            all.extend(b.chunks_exact(8).map(|c| u64::from_le_bytes(c.try_into().unwrap())));
        }
    }
    let total = all.len();
    all.sort_unstable();
    all.dedup();
    println!("{}", serde_json::json!({"total": total, "distinct": all.len()}));
}


pub fn main_with(engine_for: EngineFor, run_explicit: RunExplicit) {
    install_panic_hook();
    let args: Vec<String> = std::env::args().collect();
    match args.get(1).map(|s| s.as_str()) {
        Some("units") => cmd_units(&args, engine_for),
        Some("cases") => cmd_cases(&args, engine_for),
        Some("run-case") => cmd_run_case(&args, run_explicit, engine_for),
        Some("worker") => cmd_worker(&args, engine_for),
        Some("merge-distinct") => cmd_merge_distinct(&args),
        _ => {
            eprintln!("usage: units|cases|run-case|worker|merge-distinct ...");
            std::process::exit(2);
        }
    }
}

//! Grammar-directed Zinc workload generator. Emits text directly (not through the library's
//! encoder) choosing among legal spellings, and records the token spans and row marks the
//! fault placer and the lazy-row oracle need.

use crate::rng::Rng;

#[derive(Clone, Debug)]
pub struct GenCfg {
    pub max_depth: usize,
    pub max_items: usize,
    pub max_rows: usize,
    pub max_cols: usize,
    /// per-mille probabilities
    pub p_space: u64,
    pub p_nonascii: u64,
    pub p_escape: u64,
    pub p_blank_line: u64,
    pub p_meta: u64,
    pub p_col_meta: u64,
    pub p_nested_grid: u64,
    pub p_ref_dis: u64,
    /// 0 = LF, 1 = CRLF, 2 = CR, 3 = mixed
    pub newline: u8,
    /// spellings whose re-encoding is listed as a known finding; switched off where the
    /// workload must stay inside the part of the space with no known finding
    pub exotic: bool,
    /// size outlier: when set, some construct of the document (a string, a list, the columns or
    /// the rows of a grid) gets exactly this many elements - sizes sit on both sides of the
    /// powers of two where length fields, limits and buffers usually end
    pub big: Option<usize>,
}

impl GenCfg {
    /// Swarm configuration: every run draws its own knobs.
    pub fn swarm(rng: &mut Rng) -> GenCfg {
        GenCfg {
            max_depth: rng.range(0, 3),
            max_items: rng.range(1, 6),
            max_rows: rng.range(0, 6),
            max_cols: rng.range(1, 5),
            p_space: *rng.pick(&[0, 100, 400, 800]),
            p_nonascii: *rng.pick(&[0, 50, 300]),
            p_escape: *rng.pick(&[0, 100, 500]),
            p_blank_line: *rng.pick(&[0, 0, 150, 500]),
            p_meta: *rng.pick(&[0, 300, 800]),
            p_col_meta: *rng.pick(&[0, 200, 700]),
            p_nested_grid: *rng.pick(&[0, 50, 250]),
            p_ref_dis: *rng.pick(&[0, 300, 800]),
            newline: rng.below(4) as u8,
            exotic: true,
            big: if rng.chance(1, 40) { Some(*rng.pick(&[127usize, 128, 129, 255, 256, 257, 300, 1023, 1024, 1025, 4097, 4099, 8191, 65535, 65537])) } else { None },
        }
    }
}

#[derive(Clone, Debug, Default)]
pub struct RowMark {
    /// offset of the first byte of the row line
    pub start: usize,
    /// offset just after the row's line terminator
    pub line_end: usize,
}

#[derive(Clone, Debug, Default)]
pub struct ZincDoc {
    pub text: Vec<u8>,
    /// lexer-level token spans [start, end)
    pub tokens: Vec<(usize, usize)>,
    /// set for top-level grids: offset just after the column line terminator and one mark per row
    pub header_end: Option<usize>,
    pub rows: Vec<RowMark>,
    pub kind: &'static str,
}

impl ZincDoc {
    /// End offset of the first token starting at or after `off` (or text length).
    pub fn first_token_end_after(&self, off: usize) -> usize {
        for (s, e) in &self.tokens {
            if *s >= off {
                return *e;
            }
        }
        self.text.len()
    }
}

/// `\uXXXX` spellings around the edges of the escape decoder: surrogate pairs, lone and
/// mismatched surrogates, NUL, non-characters, upper/lower case hex
pub const UNICODE_ESCAPES: &[&str] = &[
    "\\ud83d\\ude00", "\\uD834\\uDD1E", "\\ud83d", "\\ude00", "\\ud83d\\u0041", "\\ud83dx", "\\udbff\\uffff", "\\ud800\\udc00", "\\udbff\\udfff", "\\ud800\\ud800", "\\ude00\\ud83d",
    "\\u0000", "\\uffff", "\\uFFFE", "\\ud7ff", "\\ue000", "\\u0022", "\\u005c", "\\u0024", "\\u000a", "\\u2028", "\\u00E9", "\\u00e9\\u0301",
];

/// Scalars at and just beyond the edges of their kinds (some legal, some not): calendar and clock
/// limits, leap second, offset and zone extremes, number magnitudes and odd spellings, coordinates
/// out of range. Accepted ones feed the re-encode checks, rejected ones the totality checks.
pub const EDGE_SCALARS: &[&str] = &[
    "0000-01-01", "0001-01-01", "9999-12-31", "2020-02-29", "2021-02-29", "2021-00-10", "2021-13-01", "2021-01-32", "1900-02-29", "2000-02-29", "10000-01-01",
    "24:00:00", "23:59:60", "23:59:59.999999999", "00:00:00.000000000", "12:00:00.9999999999", "7:05:00", "12:60:00", "00:00:00.", "12:34",
    "2021-06-07T23:59:60Z", "2021-06-07T12:00:00+14:00 Kiritimati", "2021-06-07T12:00:00-12:00 GMT+12", "2021-06-07T12:00:00+05:45 Kathmandu", "2021-06-07T12:00:00+24:00 UTC",
    "2021-06-07T12:00:00+99:99", "2021-06-07T12:00:00Z New_York", "2021-06-07T12:00:00-04:00 Nowhere", "2021-06-07T12:00:00-04:00", "2021-06-07T12:00:00-04:00 UTC",
    "2021-03-14T02:30:00-05:00 New_York", "2021-11-07T01:30:00-04:00 New_York", "2021-11-07T01:30:00-05:00 New_York", "1883-11-18T12:00:00-05:00 New_York", "2021-06-07T12:00:00Z Z",
    "2021-06-07T12:00:00.123456789Z", "2021-06-07T12:00:00+00:00 UTC", "2021-06-07T12:00:00-00:00 UTC", "2021-06-07T12:00:00Z GMT", "2021-06-07T12:00:00+01:00 GMT-1", "2021-06-07T12:00:00+01:00 Etc/GMT-1",
    "0.00000000000000000000001", "0.000000000000000000000000000042kW", "0.00000000000000000000000", "0.30000000000000000000000004", "123456789012345678901234567890", "6.02214076e23", "1e25",
    "255", "256", "65535", "65536", "2147483647", "2147483648", "-2147483649", "4294967295", "4294967296", "9007199254740992", "9007199254740994", "9223372036854775807", "9223372036854775808",
    "-9223372036854775808", "-9223372036854775809", "18446744073709551615", "999999999999999999999", "0.1kW", "59s", "60s", "3600s", "86400s", "1min", "100%",
    "1e308", "1.7976931348623157e308", "1e309", "-1e309", "4.9e-324", "1e-400", "9007199254740993", "18446744073709551616", "0.1", "1E5", "1e+5", "1e", "1e+", "1_0", "1_", "1__0", "5.", ".5", "-", "-.5", "00012", "1kW/h%$", "1 kW",
    "1_000_000.000_1kW", "-0kW", "NaNkW", "INFkW", "-INF", "+INF", "+1", "0x10",
    "C(1,99999999999999999999999)", "C(1,-99999999999999999999999)", "C(99999999999999999999999,1)", "C(1,1e30)", "C(0,360)", "C(0,-540.5)",
    "C(90,180)", "C(-90,-180)", "C(91,181)", "C(NaN,1)", "C(1)", "C(1,2,3)", "C(1e400,0)", "C(-0,-0)", "C( 1 , 2 )",
    "@", "@a b", "^", "^a b", "``", "Bin()", "Bin(\"a\",\"b\")", "bin(\"a\")", "B(\"\")", "Marker", "NaN", "NA", "Na", "T", "TRUE", "true", "N", "null",
];

pub const UNITS: &[&str] = &[
    "kW", "%", "$", "°F", "°C", "m/s", "ft²", "kWh", "s", "min", "h", "V", "A", "Hz", "Pa", "m³/s", "Δ°C", "_custom",
];
pub const ZONES: &[&str] = &[
    "New_York", "Berlin", "Kolkata", "London", "Los_Angeles", "Tokyo", "Sydney", "Sao_Paulo", "Chicago", "GMT+5", "GMT-3",
];
/// offsets that go with ZONES at 2021-06-07 (DST in the northern hemisphere)
pub const ZONE_OFFS: &[&str] = &[
    "-04:00", "+02:00", "+05:30", "+01:00", "-07:00", "+09:00", "+10:00", "-03:00", "-05:00", "-05:00", "+03:00",
];

const NONASCII: &[&str] = &["é", "ü", "€", "Ω", "中", "𝄞", "😀", "\u{00a0}", "\u{2028}", "ß"];

pub struct Emitter<'r> {
    pub out: Vec<u8>,
    pub tokens: Vec<(usize, usize)>,
    pub rng: &'r mut Rng,
    pub cfg: GenCfg,
}

impl<'r> Emitter<'r> {
    pub fn new(rng: &'r mut Rng, cfg: GenCfg) -> Self {
        Emitter { out: Vec::new(), tokens: Vec::new(), rng, cfg }
    }

    fn raw(&mut self, s: &str) {
        self.out.extend_from_slice(s.as_bytes());
    }

    pub fn tok(&mut self, s: &str) {
        let start = self.out.len();
        self.raw(s);
        self.tokens.push((start, self.out.len()));
    }

    /// optional horizontal white space
    pub fn ws(&mut self) {
        if self.rng.chance(self.cfg.p_space, 1000) {
            let n = self.rng.range(1, 3);
            for _ in 0..n {
                let c = if self.rng.chance(1, 6) { "\t" } else { " " };
                self.raw(c);
            }
        }
    }

    pub fn newline(&mut self) {
        let style = if self.cfg.newline == 3 { self.rng.below(3) as u8 } else { self.cfg.newline };
        let mut s = match style {
            0 => "\n",
            1 => "\r\n",
            _ => "\r",
        };
        // a lone CR followed by a line starting with LF would read as one CRLF terminator
        if self.out.last() == Some(&b'\r') && s.starts_with('\n') {
            s = "\r";
        }
        self.tok(s);
    }

    pub fn id(&mut self) -> String {
        const HEAD: &[u8] = b"abcdefghijklmnopqrstuvwxyz";
        const TAIL: &[u8] = b"abcdefghijklmnopqrstuvwxyzABCDEFGHIJKLMNOPQRSTUVWXYZ0123456789_";
        let n = self.rng.range(1, 8);
        let mut s = String::new();
        s.push(*self.rng.pick(HEAD) as char);
        for _ in 1..n {
            s.push(*self.rng.pick(TAIL) as char);
        }
        // keep clear of the one keyword-like id the grid header uses
        if s == "ver" {
            s.push('x');
        }
        s
    }

    fn digits(&mut self, n: usize) -> String {
        (0..n).map(|_| (b'0' + self.rng.below(10) as u8) as char).collect()
    }

    pub fn number(&mut self) -> String {
        let mut s = String::new();
        match self.rng.below(14) {
            0 => return "INF".into(),
            1 => return "-INF".into(),
            2 => return "NaN".into(),
            3 => return "0".into(),
            4 => return "-0".into(),
            _ => {}
        }
        if self.rng.chance(1, 4) {
            s.push('-');
        }
        // digit counts: mostly short, now and then long (17+ significant digits, 20-40 digits) or
        // padded with zeros on either side of the point
        let long = self.cfg.exotic && self.rng.chance(1, 12);
        let int_len = if long && self.rng.chance(1, 2) { self.rng.range(15, 40) } else { self.rng.range(1, 6) };
        let int = if long && self.rng.chance(1, 3) { "0".repeat(int_len) } else { self.digits(int_len) };
        if self.rng.chance(1, 8) && int.len() > 3 {
            // digit group separators are legal: 1_000
            let (a, b) = int.split_at(int.len() - 3);
            s.push_str(a);
            s.push('_');
            s.push_str(b);
        } else {
            s.push_str(&int);
        }
        if self.rng.chance(1, 2) {
            s.push('.');
            let n = if long { self.rng.range(15, 45) } else { self.rng.range(1, 6) };
            let zeros = if long && self.rng.chance(1, 2) { self.rng.range(1, n) } else { 0 };
            s.push_str(&"0".repeat(zeros.min(n)));
            if n > zeros {
                s.push_str(&self.digits(n - zeros));
            }
        }
        if self.rng.chance(1, 5) {
            s.push(*self.rng.pick(&['e', 'E']));
            match self.rng.below(3) {
                0 => s.push('+'),
                1 => s.push('-'),
                _ => {}
            }
            let n = self.rng.range(1, 2);
            s.push_str(&self.digits(n));
        } else if self.rng.chance(1, 200) {
            s.push_str("e400"); // overflows to INF
        }
        if self.rng.chance(1, 3) {
            // "_custom" is a unit the library does not know (the number is rejected): only among
            // the exotic spellings, never in the thousands of cells of an outsized document
            let u = self.rng.pick_str(UNITS);
            if u != "_custom" || self.cfg.exotic {
                s.push_str(u);
            }
        }
        s
    }

    /// contents for a quoted string, already spelled (escapes chosen here)
    pub fn str_body(&mut self, quote: char) -> String {
        let mut n = self.rng.range(0, 10);
        if let Some(big) = self.cfg.big {
            if self.rng.chance(1, 3) {
                n = big;
                self.cfg.big = None; // one outlier per document
            }
        }
        let mut s = String::new();
        for _ in 0..n {
            if self.rng.chance(self.cfg.p_escape, 1000) {
                match self.rng.below(14) {
                    12 | 13 => s.push_str(self.rng.pick_str(UNICODE_ESCAPES)),
                    0 => s.push_str("\\n"),
                    1 => s.push_str("\\t"),
                    2 => s.push_str("\\\\"),
                    3 => {
                        s.push('\\');
                        s.push(quote)
                    }
                    4 => s.push_str("\\$"),
                    5 => s.push_str("\\r"),
                    6 => s.push_str("\\u00e9"),
                    7 => s.push_str("\\u20AC"),
                    8 => s.push_str("\\u0001"),
                    9 => s.push_str("\\b"),
                    10 => s.push_str("\\f"),
                    _ => s.push_str("\\u007f"),
                }
            } else if self.rng.chance(self.cfg.p_nonascii, 1000) {
                s.push_str(self.rng.pick_str(NONASCII));
            } else {
                const PLAIN: &[u8] = b"abcxyzABC019 _-.,:;/?#[]{}()<>@^!=*+|~%&'$";
                s.push(*self.rng.pick(PLAIN) as char);
            }
        }
        s
    }

    pub fn str_lit(&mut self) -> String {
        format!("\"{}\"", self.str_body('"'))
    }

    pub fn uri_lit(&mut self) -> String {
        let n = self.rng.range(0, 10);
        let mut s = String::from("`");
        for _ in 0..n {
            if self.cfg.exotic && self.rng.chance(self.cfg.p_escape, 1000) {
                s.push_str(self.rng.pick_str(&["\\:", "\\/", "\\?", "\\#", "\\\\", "\\[", "\\]", "\\@", "\\`", "\\&", "\\=", "\\;", "\\u00e9", "\\ud83d\\ude00", "\\ud83d\\u0041", "\\ud83d", "\\udbff\\uffff", "\\u0000", "\\u0060"]));
            } else if self.cfg.exotic && self.rng.chance(self.cfg.p_nonascii, 1000) {
                s.push_str(self.rng.pick_str(NONASCII));
            } else {
                const PLAIN: &[u8] = b"abcxyz019_-.:/?#=&%+~ ";
                s.push(*self.rng.pick(PLAIN) as char);
            }
        }
        s.push('`');
        s
    }

    fn ref_body(&mut self) -> String {
        const CH: &[u8] = b"abcdefxyzABC0123456789~:-._";
        let n = self.rng.range(1, 10);
        (0..n).map(|_| *self.rng.pick(CH) as char).collect()
    }

    pub fn ref_lit(&mut self) -> String {
        let mut s = format!("@{}", self.ref_body());
        if self.rng.chance(self.cfg.p_ref_dis, 1000) {
            s.push(' ');
            s.push_str(&self.str_lit());
        }
        s
    }

    pub fn symbol_lit(&mut self) -> String {
        const HEAD: &[u8] = b"abcdefghijklmnopqrstuvwxyz";
        const CH: &[u8] = b"abcdefxyzABC0123456789~:-._";
        let n = self.rng.range(0, 8);
        let mut s = String::from("^");
        s.push(*self.rng.pick(HEAD) as char);
        for _ in 0..n {
            s.push(*self.rng.pick(CH) as char);
        }
        s
    }

    pub fn date_lit(&mut self) -> String {
        format!("{:04}-{:02}-{:02}", self.rng.range(1900, 2100), self.rng.range(1, 12), self.rng.range(1, 28))
    }

    pub fn time_lit(&mut self) -> String {
        let mut s = format!("{:02}:{:02}:{:02}", self.rng.range(0, 23), self.rng.range(0, 59), self.rng.range(0, 59));
        if self.rng.chance(1, 2) {
            s.push('.');
            let n = self.rng.range(1, 9);
            // leading and trailing zeros are where fraction printers and parsers go wrong
            let zeros = if self.rng.chance(1, 3) { self.rng.range(1, n) } else { 0 };
            for _ in 0..zeros.min(n - 1) {
                s.push('0');
            }
            let rest = n - zeros.min(n - 1);
            s.push_str(&self.digits(rest));
        }
        s
    }

    pub fn datetime_lit(&mut self) -> String {
        if self.cfg.exotic && self.rng.chance(1, 3) {
            let (ts, zone) = zoned_instant(self.rng);
            return format!("{ts} {zone}");
        }
        let date = format!("2021-06-{:02}", self.rng.range(1, 28));
        let time = self.time_lit();
        match self.rng.below(4) {
            0 => format!("{date}T{time}Z"),
            1 => format!("{date}T{time}Z UTC"),
            _ => {
                let i = self.rng.usize(ZONES.len());
                format!("{date}T{time}{} {}", ZONE_OFFS[i], ZONES[i])
            }
        }
    }

    pub fn coord_lit(&mut self) -> String {
        let lat = self.rng.range(0, 180) as f64 - 90.0 + (self.rng.below(1000) as f64) / 1000.0;
        let lng = self.rng.range(0, 360) as f64 - 180.0 + (self.rng.below(1000) as f64) / 1000.0;
        let sp = if self.rng.chance(self.cfg.p_space, 1000) { " " } else { "" };
        format!("C({sp}{lat}{sp},{sp}{lng}{sp})")
    }

    pub fn xstr_lit(&mut self) -> String {
        let ty = *self.rng.pick(&["Bin", "Foo", "Span", "Type1", "X_y"]);
        let body = if self.cfg.exotic { self.str_lit() } else { "\"text/plain\"".to_string() };
        format!("{ty}({body})")
    }

    /// One scalar literal as a single lexer token.
    pub fn scalar(&mut self) {
        let edge = if self.cfg.exotic { 2 } else { 0 };
        let s = match self.rng.weighted(&[2, 3, 1, 1, 2, 8, 8, 4, 4, 3, 3, 3, 3, 2, 2, edge]) {
            15 => self.rng.pick_str(EDGE_SCALARS).to_string(),
            0 => "N".to_string(),
            1 => "M".to_string(),
            2 => "R".to_string(),
            3 => "NA".to_string(),
            4 => self.rng.pick(&["T", "F"]).to_string(),
            5 => self.number(),
            6 => self.str_lit(),
            7 => self.uri_lit(),
            8 => self.ref_lit(),
            9 => self.symbol_lit(),
            10 => self.date_lit(),
            11 => self.time_lit(),
            12 => self.datetime_lit(),
            13 => self.coord_lit(),
            _ => self.xstr_lit(),
        };
        self.tok(&s);
    }

    pub fn value(&mut self, depth: usize) {
        if depth >= self.cfg.max_depth {
            return self.scalar();
        }
        match self.rng.weighted(&[10, 3, 3, if self.cfg.p_nested_grid > 0 { 1 } else { 0 }]) {
            0 => self.scalar(),
            1 => self.list(depth + 1),
            2 => self.dict(depth + 1),
            _ => self.nested_grid(depth + 1),
        }
    }

    pub fn list(&mut self, depth: usize) {
        self.tok("[");
        let mut n = self.rng.range(0, self.cfg.max_items);
        if let Some(big) = self.cfg.big {
            if big <= 4097 && self.rng.chance(1, 3) {
                n = big;
                self.cfg.big = None;
                self.cfg.exotic = false;
                self.cfg.max_depth = self.cfg.max_depth.min(1);
            }
        }
        for i in 0..n {
            self.ws();
            self.value(depth);
            self.ws();
            if i + 1 < n || self.rng.chance(1, 6) {
                self.tok(",");
            }
        }
        self.ws();
        self.tok("]");
    }

    fn tags(&mut self, depth: usize, sep_comma: bool, n: usize) {
        let mut used: Vec<String> = Vec::new();
        for i in 0..n {
            let mut id = self.id();
            while used.contains(&id) {
                id.push('q');
            }
            used.push(id.clone());
            self.tok(&id);
            if self.rng.chance(2, 3) {
                self.ws();
                self.tok(":");
                self.ws();
                self.value(depth);
            }
            if i + 1 < n {
                if sep_comma && self.rng.chance(2, 3) {
                    self.ws();
                    self.tok(",");
                    self.ws();
                } else {
                    self.raw(" ");
                }
            }
        }
    }

    pub fn dict(&mut self, depth: usize) {
        self.tok("{");
        self.ws();
        let n = self.rng.range(0, self.cfg.max_items);
        self.tags(depth, true, n);
        self.ws();
        self.tok("}");
    }

    pub fn nested_grid(&mut self, depth: usize) {
        self.tok("<");
        self.tok("<");
        self.newline();
        self.grid_body(depth, None);
        self.tok(">");
        self.tok(">");
    }

    /// Emits header, columns and rows; fills `marks` for a top-level grid.
    pub fn grid_body(&mut self, depth: usize, mut marks: Option<(&mut Option<usize>, &mut Vec<RowMark>)>) {
        self.tok("ver");
        self.tok(":");
        let ver = if self.rng.chance(1, 10) { "\"2.0\"" } else { "\"3.0\"" };
        self.tok(ver);
        if self.cfg.exotic && self.rng.chance(self.cfg.p_meta, 1000) {
            self.raw(" ");
            let n = self.rng.range(1, 3);
            self.tags(depth, false, n);
        }
        self.newline();
        let mut ncols = self.rng.range(1, self.cfg.max_cols);
        let mut nrows = self.rng.range(0, self.cfg.max_rows);
        if let Some(big) = self.cfg.big {
            if big <= 8191 && self.rng.chance(1, 3) {
                if big <= 1025 && self.rng.chance(1, 2) {
                    ncols = big;
                } else {
                    nrows = big;
                }
                self.cfg.big = None;
                // thousands of cells: one rejected spelling would reject the whole document, so the
                // cells of an outsized grid stay within the plain spellings
                self.cfg.exotic = false;
                self.cfg.max_depth = self.cfg.max_depth.min(1);
            }
        }
        if !self.cfg.exotic && nrows == 0 {
            nrows = 1;
        }
        let mut cols: Vec<String> = Vec::new();
        for i in 0..ncols {
            let mut id = self.id();
            while cols.contains(&id) {
                id.push('q');
            }
            cols.push(id.clone());
            self.tok(&id);
            if self.cfg.exotic && self.rng.chance(self.cfg.p_col_meta, 1000) {
                self.raw(" ");
                let n = self.rng.range(1, 2);
                self.tags(depth, false, n);
            }
            if i + 1 < ncols {
                self.ws();
                self.tok(",");
                self.ws();
            }
        }
        self.newline();
        if let Some((h, _)) = marks.as_mut() {
            **h = Some(self.out.len());
        }
        for _ in 0..nrows {
            if self.rng.chance(self.cfg.p_blank_line, 1000) {
                // blank lines between rows are skipped by the row iterator
                self.newline();
            }
            let start = self.out.len();
            let mut any = false;
            for c in 0..ncols {
                // empty cell == Null; make sure a one-column row is never an empty line
                let must = ncols == 1 || (c + 1 == ncols && !any);
                if must || self.rng.chance(4, 5) {
                    self.ws();
                    self.value(depth);
                    self.ws();
                    any = true;
                }
                if c + 1 < ncols {
                    self.tok(",");
                }
            }
            self.newline();
            if let Some((_, rows)) = marks.as_mut() {
                rows.push(RowMark { start, line_end: self.out.len() });
            }
        }
    }
}

/// Top-level document: scalar, list, dict or grid.
pub fn gen_doc(rng: &mut Rng, cfg: &GenCfg, want: Option<&'static str>) -> ZincDoc {
    let mut em = Emitter::new(rng, cfg.clone());
    let kind = match want {
        Some(k) => k,
        None => *em.rng.pick(&["scalar", "list", "dict", "grid", "grid", "grid"]),
    };
    let mut header_end = None;
    let mut rows = Vec::new();
    match kind {
        "scalar" => em.scalar(),
        "list" => em.list(1),
        "dict" => em.dict(1),
        _ => {
            em.grid_body(1, Some((&mut header_end, &mut rows)));
            // the encoder terminates a top-level grid with an empty line; both spellings are legal
            if em.rng.chance(1, 2) {
                em.newline();
            }
        }
    }
    ZincDoc { text: em.out, tokens: em.tokens, header_end, rows, kind }
}

/// An instant spelled in a zone of the tz database, as (RFC 3339 local time with offset, Haystack
/// zone name). Instants are drawn around the days on which these zones change their offset (the
/// repeated and the skipped wall-clock hour, half-hour shifts, the date line move of 2011, +13/+14
/// zones) by converting from UTC, so every spelling is a real instant; fractions of 1-9 digits.
pub fn zoned_instant(rng: &mut Rng) -> (String, String) {
    use chrono::{Datelike, Duration, Offset, TimeZone, Timelike, Utc};
    const IDS: &[&str] = &[
        "America/New_York", "America/Los_Angeles", "America/Chicago", "Europe/London", "Europe/Berlin", "Australia/Sydney", "America/Sao_Paulo", "Australia/Lord_Howe",
        "Asia/Kolkata", "Asia/Kathmandu", "Pacific/Auckland", "Pacific/Apia", "Pacific/Kiritimati", "Pacific/Tongatapu", "Pacific/Chatham", "Africa/Cairo", "America/St_Johns",
        "Asia/Tehran", "Europe/Dublin", "America/Argentina/Buenos_Aires", "America/Indiana/Knox", "Antarctica/Troll", "Asia/Tokyo", "Etc/GMT+12", "Etc/GMT-14", "Etc/UTC", "America/Havana",
    ];
    const DAYS: &[(i32, u32, u32)] = &[
        (2021, 3, 14), (2021, 11, 7), (2021, 3, 28), (2021, 10, 31), (2021, 4, 4), (2021, 10, 3), (2021, 9, 26), (2021, 4, 3), (2021, 9, 25), (2021, 3, 21), (2021, 9, 21),
        (2021, 1, 15), (2021, 7, 15), (2011, 12, 29), (2011, 12, 30), (1999, 12, 31), (2038, 1, 19), (2016, 12, 31), (1970, 1, 1),
    ];
    let id = rng.pick_str(IDS);
    let tz: chrono_tz::Tz = id.parse().unwrap_or(chrono_tz::UTC);
    let (y, m, d) = *rng.pick(DAYS);
    let base = Utc.with_ymd_and_hms(y, m, d, 0, 0, 0).single().unwrap_or_default();
    let at = base + Duration::minutes(rng.below(48 * 4) as i64 * 15 - 12 * 60) + Duration::seconds(if rng.chance(1, 2) { rng.below(60) as i64 } else { 0 });
    let own = at.with_timezone(&tz).offset().fix().local_minus_utc();
    // the instant is spelled at the zone's own offset, or - as text that comes from another
    // system may - at UTC ('Z') or at some other offset, with the zone named all the same
    let spelling = rng.below(4);
    let off = match spelling {
        0 | 1 => own,
        2 => 0,
        _ => (rng.below(27 * 4) as i32 - 12 * 4) * 900,
    };
    let local = at.with_timezone(&chrono::FixedOffset::east_opt(off).unwrap_or_else(|| chrono::FixedOffset::east_opt(0).unwrap()));
    let (sign, a) = if off < 0 { ('-', -off) } else { ('+', off) };
    let mut ts = format!("{:04}-{:02}-{:02}T{:02}:{:02}:{:02}", local.year(), local.month(), local.day(), local.hour(), local.minute(), local.second());
    if rng.chance(1, 2) {
        let digits = rng.range(1, 9);
        ts.push('.');
        for i in 0..digits {
            let dgt = if i == 0 && rng.chance(1, 3) { 0 } else { rng.below(10) };
            ts.push((b'0' + dgt as u8) as char);
        }
    }
    if spelling == 2 {
        ts.push('Z');
    } else {
        ts.push_str(&format!("{sign}{:02}:{:02}", a / 3600, (a % 3600) / 60));
    }
    let zone = id[id.find('/').map_or(0, |i| i + 1)..].to_string();
    (ts, zone)
}

/// Length ladder documents ("any length"): one construct repeated n times without nesting.
pub fn long_doc(shape: &str, n: usize) -> Vec<u8> {
    let rep = |unit: &str, sep: &str| -> String {
        let mut s = String::with_capacity(n * (unit.len() + sep.len()));
        for i in 0..n {
            if i > 0 {
                s.push_str(sep);
            }
            s.push_str(unit);
        }
        s
    };
    match shape {
        "flat-list" => format!("[{}]", rep("1", ",")),
        "flat-dict" => {
            let mut s = String::from("{");
            for i in 0..n {
                s.push_str(&format!("a{i}:1 "));
            }
            s.push('}');
            s
        }
        "many-rows" => format!("ver:\"3.0\"\na,b\n{}\n", rep("1,\"x\"", "\n")),
        "many-cols" => {
            let cols: Vec<String> = (0..n).map(|i| format!("c{i}")).collect();
            format!("ver:\"3.0\"\n{}\n{}\n", cols.join(","), rep("1", ","))
        }
        "many-meta" => {
            let mut s = String::from("ver:\"3.0\"");
            for i in 0..n {
                s.push_str(&format!(" m{i}"));
            }
            s.push_str("\na\n1\n");
            s
        }
        "long-str" => format!("\"{}\"", rep("a", "")),
        "long-str-escapes" => format!("\"{}\"", rep("\\u00e9", "")),
        "long-number" => rep("1", ""),
        "long-fraction" => format!("0.{}", rep("3", "")),
        "long-uri" => format!("`{}`", rep("a", "")),
        "long-ref" => format!("@{}", rep("a", "")),
        "long-unit" => format!("1{}", rep("m", "")),
        "json-flat-list" => format!("[{}]", rep("1", ",")),
        "json-flat-dict" => {
            let items: Vec<String> = (0..n).map(|i| format!("\"a{i}\":1")).collect();
            format!("{{{}}}", items.join(","))
        }
        "json-long-str" => format!("\"{}\"", rep("a", "")),
        "json-many-rows" => format!("{{\"_kind\":\"grid\",\"meta\":{{\"ver\":\"3.0\"}},\"cols\":[{{\"name\":\"a\"}}],\"rows\":[{}]}}", rep("{\"a\":1}", ",")),
        // filters
        "or-chain" => rep("a", " or "),
        "and-chain" => rep("a", " and "),
        "eq-or-chain" => rep("id==@a", " or "),
        "path-chain" => rep("a", "->"),
        "filter-long-str" => format!("a == \"{}\"", rep("b", "")),
        "filter-long-id" => rep("a", ""),
        _ => String::new(),
    }
    .into_bytes()
}

/// Documents whose length sits just past a buffer-size boundary, with every kind of token
/// straddling the boundary in turn: `unit` (a run of tokens of all kinds) is repeated behind
/// `shift` bytes of padding until the text is a little longer than `boundary`, then `tail` closes it.
pub fn boundary_doc(head: &str, unit: &str, tail: &str, pad: u8, boundary: usize, shift: usize) -> Vec<u8> {
    let mut s: Vec<u8> = Vec::with_capacity(boundary + 2 * unit.len() + 64);
    s.extend_from_slice(head.as_bytes());
    s.extend(std::iter::repeat(pad).take(shift));
    while s.len() < boundary + 24 {
        s.extend_from_slice(unit.as_bytes());
    }
    s.extend_from_slice(tail.as_bytes());
    s
}

/// Every value 00..99 of the two-digit fields of date, time and timestamp literals (months, days,
/// hours, minutes, seconds, offset hours and minutes, pairs of adjacent fields exhaustively).
pub fn field_sweep() -> Vec<String> {
    let mut v = Vec::new();
    for a in 0..100 {
        for b in 0..100 {
            v.push(format!("{a:02}:{b:02}:00"));
            v.push(format!("2021-{a:02}-{b:02}"));
            for sign in ['+', '-'] {
                v.push(format!("2021-06-07T12:00:00{sign}{a:02}:{b:02} London"));
            }
        }
        v.push(format!("12:00:{a:02}"));
        v.push(format!("12:00:{a:02}.5"));
        v.push(format!("2021-06-07T{a:02}:00:00Z"));
        v.push(format!("2021-06-07T12:{a:02}:00Z UTC"));
        v.push(format!("2021-06-07T12:00:{a:02}-04:00 New_York"));
        v.push(format!("2021-06-07T12:00:{a:02}.9996-04:00 New_York"));
        v.push(format!("2016-12-31T23:59:{a:02}.9994Z London"));
        v.push(format!("2016-12-31T23:59:{a:02}.99951Z UTC"));
        v.push(format!("{:04}-02-29", 1900 + a));
        v.push(format!("00{a:02}-01-01"));
    }
    v
}

pub const BOUNDARIES: &[usize] = &[1024, 4096, 8192, 16384, 65536];
pub const FILTER_UNIT: &str = "x < 10 and d >= 2021-01-01 and r == @ref1 and t > 12:30:00 and n <= -1.5e3 and s == \"str\" and u != `u` and q->w or ";
pub const ZINC_LIST_UNIT: &str = "1, 2021-01-01, @r \"d\", -INF, 1e5, \"s\\u00e9\", `u`, 12:00:00, 2021-01-01T00:00:00Z UTC, 2021-01-01T00:00:00-05:00 New_York, C(1,2), Bin(\"x\"), ^sym, NA, -1.5kW, ";
pub const ZINC_ROW_UNIT: &str = "1,2021-01-01,@r \"d\",-INF\n1e5,\"s\",`u`,12:00:00\n2021-01-01T00:00:00Z UTC,C(1,2),Bin(\"x\"),^sym\n";

/// Pure nesting ladder documents for the stack-depth dimension.
pub fn nest_doc(shape: &str, depth: usize, closed: bool) -> Vec<u8> {
    let mut s = Vec::new();
    match shape {
        "list" => {
            for _ in 0..depth {
                s.push(b'[');
            }
            if closed {
                s.push(b'1');
                for _ in 0..depth {
                    s.push(b']');
                }
            }
        }
        "dict" => {
            for _ in 0..depth {
                s.extend_from_slice(b"{a:");
            }
            if closed {
                s.push(b'1');
                for _ in 0..depth {
                    s.push(b'}');
                }
            }
        }
        "grid" => {
            s.extend_from_slice(b"ver:\"3.0\"\na\n");
            for _ in 1..depth {
                s.extend_from_slice(b"<<\nver:\"3.0\"\na\n");
            }
            if closed {
                s.extend_from_slice(b"1\n");
                for _ in 1..depth {
                    s.extend_from_slice(b">>\n");
                }
            }
        }
        "mixed" => {
            for i in 0..depth {
                if i % 2 == 0 {
                    s.push(b'[');
                } else {
                    s.extend_from_slice(b"{a:");
                }
            }
            if closed {
                s.push(b'1');
                for i in (0..depth).rev() {
                    if i % 2 == 0 {
                        s.push(b']');
                    } else {
                        s.push(b'}');
                    }
                }
            }
        }
        "json-list" => {
            for _ in 0..depth {
                s.push(b'[');
            }
            if closed {
                s.push(b'1');
                for _ in 0..depth {
                    s.push(b']');
                }
            }
        }
        "json-dict" => {
            for _ in 0..depth {
                s.extend_from_slice(b"{\"a\":");
            }
            if closed {
                s.push(b'1');
                for _ in 0..depth {
                    s.push(b'}');
                }
            }
        }
        "filter-parens" => {
            for _ in 0..depth {
                s.push(b'(');
            }
            if closed {
                s.push(b'a');
                for _ in 0..depth {
                    s.push(b')');
                }
            }
        }
        "filter-mixed" => {
            for _ in 0..depth {
                s.extend_from_slice(b"a and (");
            }
            if closed {
                s.push(b'b');
                for _ in 0..depth {
                    s.push(b')');
                }
            }
        }
        _ => {}
    }
    s
}

//! In-flight corruption of a document (bit rot, duplicated / reordered / lost segments, token
//! splices) and structural damage (extra cells, missing closers). All choices come from the
//! caller's PRNG stream; the corrupted bytes are stored explicitly in the case.

use crate::rng::Rng;

pub const STRUCT_BYTES: &[u8] = b",\n\r{}[]<>:\"`@^-() \\NMTRZ0T9.e_";

pub fn flip_bit(doc: &[u8], byte: usize, bit: u8) -> Vec<u8> {
    let mut d = doc.to_vec();
    if byte < d.len() {
        d[byte] ^= 1 << (bit & 7);
    }
    d
}

pub fn delete_byte(doc: &[u8], at: usize) -> Vec<u8> {
    let mut d = doc.to_vec();
    if at < d.len() {
        d.remove(at);
    }
    d
}

pub fn dup_byte(doc: &[u8], at: usize) -> Vec<u8> {
    let mut d = doc.to_vec();
    if at < d.len() {
        let b = d[at];
        d.insert(at, b);
    }
    d
}

pub fn insert_byte(doc: &[u8], at: usize, b: u8) -> Vec<u8> {
    let mut d = doc.to_vec();
    d.insert(at.min(d.len()), b);
    d
}

/// Names of the operators `random_op` can draw (for fired-fault accounting).
pub const OPS: &[&str] = &[
    "bitflip", "insert", "delete", "duplicate", "replace", "token-splice", "chunk-dup", "chunk-swap", "chunk-drop", "extra-cells", "drop-closer", "garbage-tail",
];

/// Applies one random corruption; returns the operator name.
pub fn random_op(rng: &mut Rng, doc: &mut Vec<u8>, tokens: &[(usize, usize)], donor: &[u8], donor_tokens: &[(usize, usize)]) -> &'static str {
    if doc.is_empty() {
        doc.push(*rng.pick(STRUCT_BYTES));
        return "insert";
    }
    let n = doc.len();
    match rng.below(12) {
        0 => {
            let i = rng.usize(n);
            doc[i] ^= 1 << rng.below(8);
            "bitflip"
        }
        1 => {
            let i = rng.usize(n + 1);
            let b = if rng.chance(3, 4) { *rng.pick(STRUCT_BYTES) } else { rng.below(256) as u8 };
            doc.insert(i, b);
            "insert"
        }
        2 => {
            doc.remove(rng.usize(n));
            "delete"
        }
        3 => {
            let i = rng.usize(n);
            let b = doc[i];
            doc.insert(i, b);
            "duplicate"
        }
        4 => {
            let i = rng.usize(n);
            doc[i] = if rng.chance(3, 4) { *rng.pick(STRUCT_BYTES) } else { rng.below(256) as u8 };
            "replace"
        }
        5 => {
            // replace one token by a token of another document
            if tokens.is_empty() || donor_tokens.is_empty() {
                let i = rng.usize(n);
                doc[i] = *rng.pick(STRUCT_BYTES);
                return "replace";
            }
            let (s, e) = tokens[rng.usize(tokens.len())];
            let (ds, de) = donor_tokens[rng.usize(donor_tokens.len())];
            if s <= e && e <= doc.len() && ds <= de && de <= donor.len() {
                doc.splice(s..e, donor[ds..de].iter().cloned());
            }
            "token-splice"
        }
        6 => {
            let s = rng.usize(n);
            let e = (s + 1 + rng.usize(16)).min(n);
            let chunk: Vec<u8> = doc[s..e].to_vec();
            doc.splice(e..e, chunk);
            "chunk-dup"
        }
        7 => {
            if n < 4 {
                doc.reverse();
                return "chunk-swap";
            }
            let a = rng.usize(n - 2);
            let b = a + 1 + rng.usize((n - a - 1).min(16));
            let c = (b + 1 + rng.usize(16)).min(n);
            // swap [a,b) and [b,c)
            let mut v = doc[..a].to_vec();
            v.extend_from_slice(&doc[b..c]);
            v.extend_from_slice(&doc[a..b]);
            v.extend_from_slice(&doc[c..]);
            *doc = v;
            "chunk-swap"
        }
        8 => {
            let s = rng.usize(n);
            let e = (s + 1 + rng.usize(16)).min(n);
            doc.drain(s..e);
            "chunk-drop"
        }
        9 => {
            // rows with more cells than columns: add cells before a line terminator
            let nls: Vec<usize> = doc.iter().enumerate().filter(|(_, b)| **b == b'\n' || **b == b'\r').map(|(i, _)| i).collect();
            let at = if nls.is_empty() { n } else { nls[rng.usize(nls.len())] };
            let k = rng.range(1, 4);
            let mut extra = Vec::new();
            for _ in 0..k {
                extra.push(b',');
                if rng.chance(2, 3) {
                    extra.extend_from_slice(rng.pick_str(&["1", "\"x\"", "M", "@r", "[1]", "{a}", "N"]).as_bytes());
                }
            }
            doc.splice(at..at, extra);
            "extra-cells"
        }
        10 => {
            // unterminated string / list / dict / grid: drop one closing character
            let closers: Vec<usize> = doc.iter().enumerate().filter(|(_, b)| b"\"`]})>".contains(b)).map(|(i, _)| i).collect();
            if closers.is_empty() {
                doc.pop();
            } else {
                doc.remove(closers[rng.usize(closers.len())]);
            }
            "drop-closer"
        }
        _ => {
            let k = rng.range(1, 8);
            for _ in 0..k {
                let b = if rng.chance(1, 2) { *rng.pick(STRUCT_BYTES) } else { rng.below(256) as u8 };
                doc.push(b);
            }
            "garbage-tail"
        }
    }
}

// ---------------------------------------------------------------------------------------------
// structural faults on JSON documents: a member of the wrong JSON type, a missing member

#[derive(Clone, Debug)]
enum Seg {
    Key(String),
    Idx(usize),
}

fn json_paths(v: &serde_json::Value, cur: &mut Vec<Seg>, out: &mut Vec<Vec<Seg>>) {
    out.push(cur.clone());
    match v {
        serde_json::Value::Object(m) => {
            for (k, c) in m {
                cur.push(Seg::Key(k.clone()));
                json_paths(c, cur, out);
                cur.pop();
            }
        }
        serde_json::Value::Array(a) => {
            for (i, c) in a.iter().enumerate() {
                cur.push(Seg::Idx(i));
                json_paths(c, cur, out);
                cur.pop();
            }
        }
        _ => {}
    }
}

fn json_at<'a>(root: &'a mut serde_json::Value, path: &[Seg]) -> Option<&'a mut serde_json::Value> {
    let mut v = root;
    for s in path {
        v = match s {
            Seg::Key(k) => v.get_mut(k.as_str())?,
            Seg::Idx(i) => v.get_mut(*i)?,
        };
    }
    Some(v)
}

/// Every single structural fault of a JSON document: each node replaced by a value of each other
/// JSON type, each object member removed. Returns (description, document) pairs; empty when the
/// base is not JSON.
pub fn json_struct_variants(doc: &[u8]) -> Vec<(String, Vec<u8>)> {
    let Ok(root) = serde_json::from_slice::<serde_json::Value>(doc) else { return Vec::new() };
    let replacements: Vec<serde_json::Value> = ["null", "true", "0", "-1.5", "1e400", "\"\"", "\"x\"", "[]", "{}", "[null]", "{\"_kind\":\"marker\"}", "{\"_kind\":\"x\"}", "{\"_kind\":\"number\",\"val\":\"1\"}"]
        .iter()
        .filter_map(|t| serde_json::from_str(t).ok())
        .collect();
    let mut paths = Vec::new();
    json_paths(&root, &mut Vec::new(), &mut paths);
    let mut out = Vec::new();
    let show = |p: &[Seg]| -> String {
        p.iter().map(|s| match s { Seg::Key(k) => format!(".{k}"), Seg::Idx(i) => format!("[{i}]") }).collect::<String>()
    };
    for p in &paths {
        for r in &replacements {
            let mut c = root.clone();
            if let Some(slot) = json_at(&mut c, p) {
                if std::mem::discriminant(slot) == std::mem::discriminant(r) && !matches!(r, serde_json::Value::Object(_) | serde_json::Value::String(_) | serde_json::Value::Number(_)) {
                    continue;
                }
                *slot = r.clone();
                out.push((format!("type-swap{}={}", show(p), r), serde_json::to_vec(&c).unwrap_or_default()));
            }
        }
        if let Some(Seg::Key(k)) = p.last() {
            let mut c = root.clone();
            if let Some(serde_json::Value::Object(m)) = json_at(&mut c, &p[..p.len() - 1]) {
                m.remove(k.as_str());
                out.push((format!("member-drop{}", show(p)), serde_json::to_vec(&c).unwrap_or_default()));
            }
        }
    }
    out
}

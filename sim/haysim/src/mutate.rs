//! In-flight corruption of a document (bit rot, duplicated / reordered / lost segments, token
//! splices) and structural damage (extra cells, missing closers). All choices come from the
//! caller's PRNG stream; the corrupted bytes are stored explicitly in the case.

use crate::rng::Rng;

pub const STRUCT_BYTES: &[u8] = b",\n\r{}[]<>:\"`@^-() \\NMTRZ0T9.e_";

pub fn flip_bit(doc: &[u8], byte: usize, bit: u8) -> Vec<u8> {
    let mut d = doc.to_vec();
    if byte < d.len() {
        d[byte] ^= 1 << (bit & 7);
    }
    d
}

pub fn delete_byte(doc: &[u8], at: usize) -> Vec<u8> {
    let mut d = doc.to_vec();
    if at < d.len() {
        d.remove(at);
    }
    d
}

pub fn dup_byte(doc: &[u8], at: usize) -> Vec<u8> {
    let mut d = doc.to_vec();
    if at < d.len() {
        let b = d[at];
        d.insert(at, b);
    }
    d
}

pub fn insert_byte(doc: &[u8], at: usize, b: u8) -> Vec<u8> {
    let mut d = doc.to_vec();
    d.insert(at.min(d.len()), b);
    d
}

/// Ill-formed UTF-8: the forms a byte stream can carry and a `&str` cannot - stray and surplus
/// continuation bytes, truncated sequences, overlong forms, surrogates, code points beyond
/// U+10FFFF, the obsolete five- and six-byte forms, and the bytes that never occur.
pub const BAD_UTF8: &[&[u8]] = &[
    b"\x80",
    b"\xbf\xbf",
    b"\xc3",
    b"\xe2\x82",
    b"\xf0\x9f\x98",
    b"\xc3\xa9\x80\x80\x80",
    b"\xc0\x80",
    b"\xc1\xbf",
    b"\xe0\x80\x80",
    b"\xf0\x80\x80\x80",
    b"\xed\xa0\x80",
    b"\xed\xbf\xbf",
    b"\xf4\x90\x80\x80",
    b"\xf7\xbf\xbf\xbf",
    b"\xf8\x88\x80\x80\x80",
    b"\xfb\xbf\xbf\xbf\xbf",
    b"\xfc\x84\x80\x80\x80\x80",
    b"\xfd\xbf\xbf\xbf\xbf\xbf",
    b"\xfe\x80\x80\x80\x80\x80\x80",
    b"\xff\xbf\xbf\xbf\xbf\xbf\xbf\xbf",
    b"\xfe",
    b"\xff\xff",
];

/// Names of the operators `random_op` can draw (for fired-fault accounting).
pub const OPS: &[&str] = &[
    "bitflip", "insert", "delete", "duplicate", "replace", "token-splice", "chunk-dup", "chunk-swap", "chunk-drop", "extra-cells", "drop-closer", "garbage-tail", "bad-utf8",
];

/// Applies one random corruption; returns the operator name.
pub fn random_op(rng: &mut Rng, doc: &mut Vec<u8>, tokens: &[(usize, usize)], donor: &[u8], donor_tokens: &[(usize, usize)]) -> &'static str {
    if doc.is_empty() {
        doc.push(*rng.pick(STRUCT_BYTES));
        return "insert";
    }
    let n = doc.len();
    match rng.below(13) {
        0 => {
            let i = rng.usize(n);
            doc[i] ^= 1 << rng.below(8);
            "bitflip"
        }
        12 => {
            let i = rng.usize(n + 1);
            let seq = *rng.pick(BAD_UTF8);
            doc.splice(i..i, seq.iter().cloned());
            "bad-utf8"
        }
        1 => {
            let i = rng.usize(n + 1);
            let b = if rng.chance(3, 4) { *rng.pick(STRUCT_BYTES) } else { rng.below(256) as u8 };
            doc.insert(i, b);
            "insert"
        }
        2 => {
            doc.remove(rng.usize(n));
            "delete"
        }
        3 => {
            let i = rng.usize(n);
            let b = doc[i];
            doc.insert(i, b);
            "duplicate"
        }
        4 => {
            let i = rng.usize(n);
            doc[i] = if rng.chance(3, 4) { *rng.pick(STRUCT_BYTES) } else { rng.below(256) as u8 };
            "replace"
        }
        5 => {
            // replace one token by a token of another document
            if tokens.is_empty() || donor_tokens.is_empty() {
                let i = rng.usize(n);
                doc[i] = *rng.pick(STRUCT_BYTES);
                return "replace";
            }
            let (s, e) = tokens[rng.usize(tokens.len())];
            let (ds, de) = donor_tokens[rng.usize(donor_tokens.len())];
            if s <= e && e <= doc.len() && ds <= de && de <= donor.len() {
                doc.splice(s..e, donor[ds..de].iter().cloned());
            }
            "token-splice"
        }
        6 => {
            let s = rng.usize(n);
            let e = (s + 1 + rng.usize(16)).min(n);
            let chunk: Vec<u8> = doc[s..e].to_vec();
            doc.splice(e..e, chunk);
            "chunk-dup"
        }
        7 => {
            if n < 4 {
                doc.reverse();
                return "chunk-swap";
            }
            let a = rng.usize(n - 2);
            let b = a + 1 + rng.usize((n - a - 1).min(16));
            let c = (b + 1 + rng.usize(16)).min(n);
            // swap [a,b) and [b,c)
            let mut v = doc[..a].to_vec();
            v.extend_from_slice(&doc[b..c]);
            v.extend_from_slice(&doc[a..b]);
            v.extend_from_slice(&doc[c..]);
            *doc = v;
            "chunk-swap"
        }
        8 => {
            let s = rng.usize(n);
            let e = (s + 1 + rng.usize(16)).min(n);
            doc.drain(s..e);
            "chunk-drop"
        }
        9 => {
            // rows with more cells than columns: add cells before a line terminator
            let nls: Vec<usize> = doc.iter().enumerate().filter(|(_, b)| **b == b'\n' || **b == b'\r').map(|(i, _)| i).collect();
            let at = if nls.is_empty() { n } else { nls[rng.usize(nls.len())] };
            let k = rng.range(1, 4);
            let mut extra = Vec::new();
            for _ in 0..k {
                extra.push(b',');
                if rng.chance(2, 3) {
                    extra.extend_from_slice(rng.pick_str(&["1", "\"x\"", "M", "@r", "[1]", "{a}", "N"]).as_bytes());
                }
            }
            doc.splice(at..at, extra);
            "extra-cells"
        }
        10 => {
            // unterminated string / list / dict / grid: drop one closing character
            let closers: Vec<usize> = doc.iter().enumerate().filter(|(_, b)| b"\"`]})>".contains(b)).map(|(i, _)| i).collect();
            if closers.is_empty() {
                doc.pop();
            } else {
                doc.remove(closers[rng.usize(closers.len())]);
            }
            "drop-closer"
        }
        _ => {
            let k = rng.range(1, 8);
            for _ in 0..k {
                let b = if rng.chance(1, 2) { *rng.pick(STRUCT_BYTES) } else { rng.below(256) as u8 };
                doc.push(b);
            }
            "garbage-tail"
        }
    }
}

// ---------------------------------------------------------------------------------------------
// structural faults on JSON documents: a member of the wrong JSON type, a missing member

#[derive(Clone, Debug)]
enum Seg {
    Key(String),
    Idx(usize),
}

fn json_paths(v: &serde_json::Value, cur: &mut Vec<Seg>, out: &mut Vec<Vec<Seg>>) {
    out.push(cur.clone());
    match v {
        serde_json::Value::Object(m) => {
            for (k, c) in m {
                cur.push(Seg::Key(k.clone()));
                json_paths(c, cur, out);
                cur.pop();
            }
        }
        serde_json::Value::Array(a) => {
            for (i, c) in a.iter().enumerate() {
                cur.push(Seg::Idx(i));
                json_paths(c, cur, out);
                cur.pop();
            }
        }
        _ => {}
    }
}

fn json_at<'a>(root: &'a mut serde_json::Value, path: &[Seg]) -> Option<&'a mut serde_json::Value> {
    let mut v = root;
    for s in path {
        v = match s {
            Seg::Key(k) => v.get_mut(k.as_str())?,
            Seg::Idx(i) => v.get_mut(*i)?,
        };
    }
    Some(v)
}

/// Every single structural fault of a JSON document: each node replaced by a value of each other
/// JSON type, each object member removed. Returns (description, document) pairs; empty when the
/// base is not JSON.
pub fn json_struct_variants(doc: &[u8]) -> Vec<(String, Vec<u8>)> {
    let Ok(root) = serde_json::from_slice::<serde_json::Value>(doc) else { return Vec::new() };
    let replacements: Vec<serde_json::Value> = ["null", "true", "0", "-1.5", "1e400", "\"\"", "\"x\"", "[]", "{}", "[null]", "{\"_kind\":\"marker\"}", "{\"_kind\":\"x\"}", "{\"_kind\":\"number\",\"val\":\"1\"}"]
        .iter()
        .filter_map(|t| serde_json::from_str(t).ok())
        .collect();
    let mut paths = Vec::new();
    json_paths(&root, &mut Vec::new(), &mut paths);
    let mut out = Vec::new();
    let show = |p: &[Seg]| -> String {
        p.iter().map(|s| match s { Seg::Key(k) => format!(".{k}"), Seg::Idx(i) => format!("[{i}]") }).collect::<String>()
    };
    for p in &paths {
        for r in &replacements {
            let mut c = root.clone();
            if let Some(slot) = json_at(&mut c, p) {
                if std::mem::discriminant(slot) == std::mem::discriminant(r) && !matches!(r, serde_json::Value::Object(_) | serde_json::Value::String(_) | serde_json::Value::Number(_)) {
                    continue;
                }
                *slot = r.clone();
                out.push((format!("type-swap{}={}", show(p), r), serde_json::to_vec(&c).unwrap_or_default()));
            }
        }
        if let Some(Seg::Key(k)) = p.last() {
            let mut c = root.clone();
            if let Some(serde_json::Value::Object(m)) = json_at(&mut c, &p[..p.len() - 1]) {
                m.remove(k.as_str());
                out.push((format!("member-drop{}", show(p)), serde_json::to_vec(&c).unwrap_or_default()));
            }
        }
    }
    out
}

/// Byte spans of the members of every object of a JSON text: per object (offset just after its
/// '{', offset of its '}', member spans [start, end) covering `"key" : value` without commas).
/// `None` when the text is not well-formed enough to be walked.
fn json_object_spans(doc: &[u8]) -> Option<Vec<(usize, usize, Vec<(usize, usize)>)>> {
    fn ws(d: &[u8], mut i: usize) -> usize {
        while i < d.len() && matches!(d[i], b' ' | b'\t' | b'\n' | b'\r') {
            i += 1;
        }
        i
    }
    fn string(d: &[u8], mut i: usize) -> Option<usize> {
        if d.get(i) != Some(&b'"') {
            return None;
        }
        i += 1;
        while i < d.len() {
            match d[i] {
                b'\\' => i += 2,
                b'"' => return Some(i + 1),
                _ => i += 1,
            }
        }
        None
    }
    fn value(d: &[u8], i: usize, depth: usize, out: &mut Vec<(usize, usize, Vec<(usize, usize)>)>) -> Option<usize> {
        if depth > 200 {
            return None;
        }
        let i = ws(d, i);
        match *d.get(i)? {
            b'"' => string(d, i),
            b'{' => {
                let open = i + 1;
                let mut members = Vec::new();
                let mut j = ws(d, open);
                if d.get(j) == Some(&b'}') {
                    out.push((open, j, members));
                    return Some(j + 1);
                }
                loop {
                    let start = ws(d, j);
                    let k_end = string(d, start)?;
                    let c = ws(d, k_end);
                    if d.get(c) != Some(&b':') {
                        return None;
                    }
                    let v_end = value(d, c + 1, depth + 1, out)?;
                    members.push((start, v_end));
                    j = ws(d, v_end);
                    match *d.get(j)? {
                        b',' => j += 1,
                        b'}' => {
                            out.push((open, j, members));
                            return Some(j + 1);
                        }
                        _ => return None,
                    }
                }
            }
            b'[' => {
                let mut j = ws(d, i + 1);
                if d.get(j) == Some(&b']') {
                    return Some(j + 1);
                }
                loop {
                    let e = value(d, j, depth + 1, out)?;
                    j = ws(d, e);
                    match *d.get(j)? {
                        b',' => j += 1,
                        b']' => return Some(j + 1),
                        _ => return None,
                    }
                }
            }
            _ => {
                let mut j = i;
                while j < d.len() && !matches!(d[j], b',' | b'}' | b']' | b' ' | b'\t' | b'\n' | b'\r') {
                    j += 1;
                }
                (j > i).then_some(j)
            }
        }
    }
    let mut out = Vec::new();
    let end = value(doc, 0, 0, &mut out)?;
    (ws(doc, end) == doc.len()).then_some(out)
}

/// Member-level faults of a JSON text that keep it well-formed JSON and that a tree of
/// `serde_json::Value` cannot express: a member repeated, a member moved to the front or the end
/// of its object (so `_kind` comes after the members it qualifies), a foreign member added in
/// front or at the end. Returns (description, document) pairs; empty when the text cannot be walked.
pub fn json_member_variants(doc: &[u8]) -> Vec<(String, Vec<u8>)> {
    const FOREIGN: &[&str] = &["\"zz\":1", "\"_kind\":\"marker\"", "\"val\":null", "\"A\":{}", "\"\":\"\""];
    let Some(objects) = json_object_spans(doc) else { return Vec::new() };
    let mut out = Vec::new();
    let splice = |at: usize, text: &[u8]| -> Vec<u8> {
        let mut v = doc[..at].to_vec();
        v.extend_from_slice(text);
        v.extend_from_slice(&doc[at..]);
        v
    };
    for (oi, (open, close, members)) in objects.iter().enumerate() {
        for (fi, f) in FOREIGN.iter().enumerate() {
            let front = if members.is_empty() { f.to_string() } else { format!("{f},") };
            out.push((format!("member-add obj{oi} front #{fi}"), splice(*open, front.as_bytes())));
            if !members.is_empty() {
                out.push((format!("member-add obj{oi} end #{fi}"), splice(*close, format!(",{f}").as_bytes())));
            }
        }
        for (mi, (s, e)) in members.iter().enumerate() {
            let m = &doc[*s..*e];
            let mut dup = vec![b','];
            dup.extend_from_slice(m);
            out.push((format!("member-repeat obj{oi}.{mi} at end"), splice(*close, &dup)));
            let mut dupf = m.to_vec();
            dupf.push(b',');
            out.push((format!("member-repeat obj{oi}.{mi} in front"), splice(*open, &dupf)));
            if members.len() > 1 {
                // the object's members in another order: member mi last / first
                for last in [true, false] {
                    if (last && mi + 1 == members.len()) || (!last && mi == 0) {
                        continue;
                    }
                    let mut order: Vec<usize> = (0..members.len()).filter(|k| *k != mi).collect();
                    if last {
                        order.push(mi);
                    } else {
                        order.insert(0, mi);
                    }
                    let mut v = doc[..*open].to_vec();
                    for (n, k) in order.iter().enumerate() {
                        if n > 0 {
                            v.push(b',');
                        }
                        v.extend_from_slice(&doc[members[*k].0..members[*k].1]);
                    }
                    v.extend_from_slice(&doc[*close..]);
                    out.push((format!("member-move obj{oi}.{mi} {}", if last { "last" } else { "first" }), v));
                }
            }
        }
    }
    out
}

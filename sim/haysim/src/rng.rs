//! One integer decides everything: SplitMix64 -> xoshiro256** with named sub-streams.
//! Written here (not the `rand` crate) so a run is a pure function of VERIF_SEED and this file.

#[derive(Clone, Debug)]
pub struct Rng {
    s: [u64; 4],
}

pub fn splitmix(x: &mut u64) -> u64 {
    *x = x.wrapping_add(0x9E37_79B9_7F4A_7C15);
    let mut z = *x;
    z = (z ^ (z >> 30)).wrapping_mul(0xBF58_476D_1CE4_E5B9);
    z = (z ^ (z >> 27)).wrapping_mul(0x94D0_49BB_1331_11EB);
    z ^ (z >> 31)
}

pub fn fnv1a(bytes: &[u8]) -> u64 {
    let mut h: u64 = 0xcbf2_9ce4_8422_2325;
    for b in bytes {
        h ^= *b as u64;
        h = h.wrapping_mul(0x0000_0100_0000_01b3);
    }
    h
}

/// Mix several integers into one seed (order sensitive).
pub fn mix(parts: &[u64]) -> u64 {
    let mut acc: u64 = 0x243F_6A88_85A3_08D3;
    for p in parts {
        let mut x = acc ^ p.wrapping_mul(0x9E37_79B9_7F4A_7C15);
        acc = splitmix(&mut x);
    }
    acc
}

impl Rng {
    pub fn new(seed: u64) -> Self {
        let mut x = seed;
        let s = [splitmix(&mut x), splitmix(&mut x), splitmix(&mut x), splitmix(&mut x)];
        Rng { s }
    }

    /// Independent sub-stream: adding a draw in one stream never shifts another.
    pub fn fork(&self, name: &str) -> Rng {
        Rng::new(mix(&[self.s[0], self.s[1], self.s[2], self.s[3], fnv1a(name.as_bytes())]))
    }

    pub fn next_u64(&mut self) -> u64 {
        let result = self.s[1].wrapping_mul(5).rotate_left(7).wrapping_mul(9);
        let t = self.s[1] << 17;
        self.s[2] ^= self.s[0];
        self.s[3] ^= self.s[1];
        self.s[1] ^= self.s[2];
        self.s[0] ^= self.s[3];
        self.s[2] ^= t;
        self.s[3] = self.s[3].rotate_left(45);
        result
    }

    /// uniform in [0, n) (n > 0)
    pub fn below(&mut self, n: u64) -> u64 {
        debug_assert!(n > 0);
        // multiply-shift; bias is irrelevant here, determinism is what matters
        ((self.next_u64() as u128 * n as u128) >> 64) as u64
    }

    pub fn usize(&mut self, n: usize) -> usize {
        self.below(n as u64) as usize
    }

    /// uniform in [lo, hi] inclusive
    pub fn range(&mut self, lo: usize, hi: usize) -> usize {
        lo + self.usize(hi - lo + 1)
    }

    pub fn chance(&mut self, num: u64, den: u64) -> bool {
        self.below(den) < num
    }

    pub fn f64(&mut self) -> f64 {
        (self.next_u64() >> 11) as f64 / (1u64 << 53) as f64
    }

    pub fn pick<'a, T>(&mut self, xs: &'a [T]) -> &'a T {
        &xs[self.usize(xs.len())]
    }

    pub fn pick_str(&mut self, xs: &[&'static str]) -> &'static str {
        xs[self.usize(xs.len())]
    }

    pub fn weighted(&mut self, weights: &[u32]) -> usize {
        let total: u64 = weights.iter().map(|w| *w as u64).sum();
        let mut r = self.below(total.max(1));
        for (i, w) in weights.iter().enumerate() {
            if r < *w as u64 {
                return i;
            }
            r -= *w as u64;
        }
        weights.len() - 1
    }

    pub fn shuffle<T>(&mut self, xs: &mut [T]) {
        for i in (1..xs.len()).rev() {
            let j = self.usize(i + 1);
            xs.swap(i, j);
        }
    }
}

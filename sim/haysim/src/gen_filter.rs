//! Haystack filter text generator: every term kind, every literal kind, random legal spacing.

use crate::gen_zinc::{Emitter, GenCfg};
use crate::rng::Rng;

#[derive(Clone, Debug)]
pub struct FilterCfg {
    pub max_depth: usize,
    pub max_terms: usize,
    pub p_space: u64,
    /// ids, refs and symbols are drawn from small pools so that filters hit the record store
    pub small_universe: bool,
}

impl FilterCfg {
    pub fn swarm(rng: &mut Rng) -> FilterCfg {
        FilterCfg {
            max_depth: rng.range(0, 4),
            max_terms: rng.range(1, 4),
            p_space: *rng.pick(&[0, 300, 800]),
            small_universe: rng.chance(1, 2),
        }
    }
}

pub const POOL_IDS: &[&str] = &["a", "b", "c", "siteRef", "equipRef", "id", "x", "dis"];
pub const POOL_REFS: &[&str] = &["r0", "r1", "r2", "r3", "r4", "r5", "r6", "r7", "nope"];
pub const POOL_SYMS: &[&str] = &["site", "equip", "point", "ahu", "air", "elec", "hot-water", "nothing"];
pub const POOL_RELS: &[&str] = &["containedBy", "inputs", "outputs", "is", "foo"];

pub struct FEmitter<'r> {
    pub out: String,
    pub rng: &'r mut Rng,
    pub cfg: FilterCfg,
}

impl<'r> FEmitter<'r> {
    fn sp(&mut self, required: bool) {
        if required || self.rng.chance(self.cfg.p_space, 1000) {
            let s = if self.rng.chance(1, 8) { *self.rng.pick(&["\n", "\t", "  ", "\r\n"]) } else { " " };
            self.out.push_str(s);
        }
    }

    fn zinc<F: FnOnce(&mut Emitter) -> String>(&mut self, f: F) -> String {
        let mut cfg = GenCfg::swarm(self.rng);
        cfg.big = None; // filter literals stay short; long ones are in the length ladders
        cfg.p_ref_dis = 200;
        let mut em = Emitter::new(self.rng, cfg);
        f(&mut em)
    }

    fn id(&mut self) -> String {
        if self.cfg.small_universe {
            self.rng.pick(POOL_IDS).to_string()
        } else {
            let mut s = self.zinc(|e| e.id());
            // keep clear of the keywords so that the text means what the generator intends
            if ["and", "or", "not", "true", "false"].contains(&s.as_str()) {
                s.push('x');
            }
            s
        }
    }

    fn path(&mut self) {
        let n = *self.rng.pick(&[1usize, 1, 1, 2, 2, 3, 4]);
        for i in 0..n {
            let id = self.id();
            self.out.push_str(&id);
            if i + 1 < n {
                self.sp(false);
                self.out.push_str("->");
                self.sp(false);
            }
        }
    }

    fn ref_lit(&mut self) -> String {
        if self.cfg.small_universe {
            format!("@{}", self.rng.pick(POOL_REFS))
        } else {
            self.zinc(|e| e.ref_lit())
        }
    }

    fn sym_lit(&mut self) -> String {
        if self.cfg.small_universe {
            format!("^{}", self.rng.pick(POOL_SYMS))
        } else {
            self.zinc(|e| e.symbol_lit())
        }
    }

    fn literal(&mut self) -> String {
        match self.rng.below(11) {
            0 => {
                let mut n = self.zinc(|e| e.number());
                if n.contains("INF") {
                    n = "42".into();
                }
                n
            }
            1 => self.zinc(|e| e.str_lit()),
            2 => self.zinc(|e| e.uri_lit()),
            3 => self.ref_lit(),
            4 => self.sym_lit(),
            5 => self.zinc(|e| e.date_lit()),
            6 => self.zinc(|e| e.time_lit()),
            7 => self.zinc(|e| e.datetime_lit()),
            8 => "true".into(),
            9 => "false".into(),
            _ => (self.rng.below(100) as i64 - 20).to_string(),
        }
    }

    fn term(&mut self, depth: usize) {
        let w_parens = if depth < self.cfg.max_depth { 3 } else { 0 };
        match self.rng.weighted(&[5, 3, 8, 3, 3, 4, w_parens]) {
            0 => self.path(),
            1 => {
                self.out.push_str("not");
                self.sp(true);
                self.path();
            }
            2 => {
                self.path();
                self.sp(false);
                let op = *self.rng.pick(&["==", "!=", "<", "<=", ">", ">="]);
                self.out.push_str(op);
                self.sp(false);
                let lit = self.literal();
                // "<" directly followed by "=" or "-" digits is fine; a literal starting with '=' cannot occur
                self.out.push_str(&lit);
            }
            3 => {
                self.path();
                self.sp(false);
                self.out.push_str("*==");
                self.sp(false);
                let r = self.ref_lit();
                self.out.push_str(&r);
            }
            4 => {
                let s = self.sym_lit();
                self.out.push_str(&s);
            }
            5 => {
                let rel = if self.cfg.small_universe { self.rng.pick(POOL_RELS).to_string() } else { self.id() };
                self.out.push_str(&rel);
                self.out.push('?');
                match self.rng.below(4) {
                    0 => {}
                    1 => {
                        self.sp(true);
                        let s = self.sym_lit();
                        self.out.push_str(&s);
                    }
                    2 => {
                        self.sp(true);
                        let r = self.ref_lit();
                        self.out.push_str(&r);
                    }
                    _ => {
                        self.sp(true);
                        let s = self.sym_lit();
                        self.out.push_str(&s);
                        self.sp(true);
                        let r = self.ref_lit();
                        self.out.push_str(&r);
                    }
                }
            }
            _ => {
                self.out.push('(');
                self.sp(false);
                self.or(depth + 1);
                self.sp(false);
                self.out.push(')');
            }
        }
    }

    fn and(&mut self, depth: usize) {
        let n = self.rng.range(1, self.cfg.max_terms);
        for i in 0..n {
            self.term(depth);
            if i + 1 < n {
                self.sp(true);
                self.out.push_str("and");
                self.sp(true);
            }
        }
    }

    pub fn or(&mut self, depth: usize) {
        let n = self.rng.range(1, self.cfg.max_terms.min(3));
        for i in 0..n {
            self.and(depth);
            if i + 1 < n {
                self.sp(true);
                self.out.push_str("or");
                self.sp(true);
            }
        }
    }
}

pub fn gen_filter(rng: &mut Rng, cfg: &FilterCfg) -> String {
    let mut em = FEmitter { out: String::new(), rng, cfg: cfg.clone() };
    em.sp(false);
    em.or(0);
    em.sp(false);
    em.out
}

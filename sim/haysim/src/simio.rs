//! Simulated byte channels: the only "network/disk" libhaystack ever sees is the `Read`/`Write`
//! value its caller hands to the codec. `SimReader`/`SimWriter` execute an explicit fault plan;
//! nothing here reads a clock or an OS source of randomness.

use crate::rng::Rng;
use serde::{Deserialize, Serialize};
use std::cell::Cell;
use std::io::{self, ErrorKind, Read, Write};
use std::rc::Rc;

#[derive(Serialize, Deserialize, Clone, Debug, PartialEq, Default)]
pub enum Chunk {
    /// deliver as much as the caller's buffer takes
    #[default]
    Full,
    /// one byte per read()
    One,
    /// uniformly 1..=k bytes, drawn from the plan's own stream
    Random(usize),
    /// 1,2,4,8,... bytes
    Pow2,
    /// everything except the last byte, then the last byte
    AllButOne,
    /// fixed n bytes
    Fixed(usize),
}

#[derive(Serialize, Deserialize, Clone, Debug, PartialEq)]
pub struct ErrSpec {
    /// byte offset at which the error is returned instead of data
    pub at: usize,
    /// io::ErrorKind name
    pub kind: String,
    /// true: every later read fails too; false: fires once, then the stream resumes
    pub sticky: bool,
}

#[derive(Serialize, Deserialize, Clone, Debug, PartialEq, Default)]
pub struct ReadPlan {
    pub chunk: Chunk,
    /// (read-call index, burst length): that many consecutive Interrupted results
    pub eintr: Vec<(u64, u32)>,
    pub err: Option<ErrSpec>,
    /// Ok(0) from this offset on (peer closed the stream mid-document)
    pub truncate: Option<usize>,
    /// stream for Random chunk sizes
    pub chunk_seed: u64,
    /// read-call indices at which the reader, before it answers, decodes a small document of its
    /// own on the same thread (a reader that unwraps an envelope, a logging reader): whatever
    /// per-thread state the decoder keeps while it waits for bytes must tolerate that
    #[serde(default, skip_serializing_if = "Vec::is_empty")]
    pub reenter: Vec<u64>,
}

impl ReadPlan {
    pub fn is_faulty(&self) -> bool {
        !self.eintr.is_empty() || self.err.is_some() || self.truncate.is_some() || self.chunk != Chunk::Full
    }
}

pub const ERR_KINDS: &[&str] = &[
    "Other",
    "ConnectionReset",
    "BrokenPipe",
    "TimedOut",
    "WouldBlock",
    "InvalidData",
    "UnexpectedEof",
    "ConnectionAborted",
    "PermissionDenied",
];

pub fn kind_from_name(name: &str) -> ErrorKind {
    match name {
        "ConnectionReset" => ErrorKind::ConnectionReset,
        "BrokenPipe" => ErrorKind::BrokenPipe,
        "TimedOut" => ErrorKind::TimedOut,
        "WouldBlock" => ErrorKind::WouldBlock,
        "InvalidData" => ErrorKind::InvalidData,
        "UnexpectedEof" => ErrorKind::UnexpectedEof,
        "ConnectionAborted" => ErrorKind::ConnectionAborted,
        "PermissionDenied" => ErrorKind::PermissionDenied,
        "Interrupted" => ErrorKind::Interrupted,
        "WriteZero" => ErrorKind::WriteZero,
        _ => ErrorKind::Other,
    }
}

/// Counters shared between the channel and the harness (the sink owns the `&mut` reader).
/// what a re-entering reader does (set once by the binary: decodes a Zinc, a Hayson and a filter text)
pub static REENTER: std::sync::OnceLock<fn()> = std::sync::OnceLock::new();

#[derive(Default, Debug)]
pub struct ChanStats {
    pub calls: Cell<u64>,
    pub delivered: Cell<usize>,
    pub eintr_fired: Cell<u64>,
    pub err_fired: Cell<u64>,
    pub eof_reads: Cell<u64>,
    pub trunc_fired: Cell<u64>,
    pub short_ops: Cell<u64>,
    pub reentered: Cell<u64>,
    /// calls made after the last fault fired (bounded-liveness accounting)
    pub calls_at_last_fault: Cell<u64>,
}

/// Unwind payload used when a sink keeps calling the channel past its step budget.
#[derive(Debug)]
pub struct ChannelBudgetExceeded {
    pub calls: u64,
}

pub struct SimReader {
    data: Vec<u8>,
    pos: usize,
    plan: ReadPlan,
    rng: Rng,
    pow: usize,
    burst_left: u32,
    eintr_idx: usize,
    err_done: bool,
    pub stats: Rc<ChanStats>,
    /// maximum number of read() calls after the last fault fired (bounded liveness) ...
    pub max_calls: u64,
    /// ... and in total (catches a sink that spins on a persistent error)
    pub max_calls_abs: u64,
}

impl SimReader {
    pub fn new(data: &[u8], plan: &ReadPlan) -> Self {
        let mut plan = plan.clone();
        plan.eintr.sort();
        SimReader {
            data: data.to_vec(),
            pos: 0,
            rng: Rng::new(plan.chunk_seed ^ 0x51AD_10C4),
            plan,
            pow: 1,
            burst_left: 0,
            eintr_idx: 0,
            err_done: false,
            stats: Rc::new(ChanStats::default()),
            max_calls: u64::MAX,
            max_calls_abs: u64::MAX,
        }
    }

    pub fn with_budget(mut self, since_last_fault: u64, absolute: u64) -> Self {
        self.max_calls = since_last_fault;
        self.max_calls_abs = absolute;
        self
    }

    pub fn delivered(&self) -> usize {
        self.pos
    }

    fn mark_fault(&self) {
        self.stats.calls_at_last_fault.set(self.stats.calls.get());
    }
}

impl Read for SimReader {
    fn read(&mut self, buf: &mut [u8]) -> io::Result<usize> {
        let call = self.stats.calls.get();
        self.stats.calls.set(call + 1);
        if call + 1 - self.stats.calls_at_last_fault.get() > self.max_calls || call + 1 > self.max_calls_abs {
            std::panic::resume_unwind(Box::new(ChannelBudgetExceeded { calls: call + 1 }));
        }
        if buf.is_empty() {
            return Ok(0);
        }
        if self.plan.reenter.contains(&call) {
            if let Some(f) = REENTER.get() {
                self.stats.reentered.set(self.stats.reentered.get() + 1);
                f();
            }
        }
        // Interrupted bursts, keyed by read-call index
        if self.burst_left == 0 {
            while self.eintr_idx < self.plan.eintr.len() && self.plan.eintr[self.eintr_idx].0 <= call {
                self.burst_left += self.plan.eintr[self.eintr_idx].1;
                self.eintr_idx += 1;
            }
        }
        if self.burst_left > 0 {
            self.burst_left -= 1;
            self.stats.eintr_fired.set(self.stats.eintr_fired.get() + 1);
            self.mark_fault();
            return Err(io::Error::new(ErrorKind::Interrupted, "simulated EINTR"));
        }
        let end = self.plan.truncate.map_or(self.data.len(), |t| t.min(self.data.len()));
        let mut limit = end;
        if let Some(err) = &self.plan.err {
            if !self.err_done || err.sticky {
                if self.pos >= err.at {
                    self.err_done = true;
                    self.stats.err_fired.set(self.stats.err_fired.get() + 1);
                    self.mark_fault();
                    return Err(io::Error::new(kind_from_name(&err.kind), "simulated I/O error"));
                }
                limit = limit.min(err.at);
            }
        }
        if self.pos >= end {
            self.stats.eof_reads.set(self.stats.eof_reads.get() + 1);
            if self.plan.truncate.is_some_and(|t| t < self.data.len()) {
                self.stats.trunc_fired.set(self.stats.trunc_fired.get() + 1);
                self.mark_fault();
            }
            return Ok(0);
        }
        let avail = limit - self.pos;
        let want = match self.plan.chunk {
            Chunk::Full => avail,
            Chunk::One => 1,
            Chunk::Random(k) => 1 + self.rng.usize(k.max(1)),
            Chunk::Pow2 => {
                let p = self.pow;
                self.pow = (self.pow * 2).min(1 << 16);
                p
            }
            Chunk::AllButOne => {
                if avail > 1 {
                    avail - 1
                } else {
                    1
                }
            }
            Chunk::Fixed(n) => n.max(1),
        };
        let n = want.min(avail).min(buf.len());
        if n < buf.len().min(avail) {
            self.stats.short_ops.set(self.stats.short_ops.get() + 1);
        }
        buf[..n].copy_from_slice(&self.data[self.pos..self.pos + n]);
        self.pos += n;
        self.stats.delivered.set(self.pos);
        Ok(n)
    }
}

#[derive(Serialize, Deserialize, Clone, Debug, PartialEq, Default)]
pub struct WritePlan {
    pub chunk: Chunk,
    pub eintr: Vec<(u64, u32)>,
    pub err: Option<ErrSpec>,
    /// Ok(0) once this many bytes were accepted (disk full / peer gone)
    pub zero_at: Option<usize>,
    pub chunk_seed: u64,
}

pub struct SimWriter {
    pub out: Vec<u8>,
    plan: WritePlan,
    rng: Rng,
    pow: usize,
    burst_left: u32,
    eintr_idx: usize,
    err_done: bool,
    pub stats: Rc<ChanStats>,
    pub max_calls: u64,
}

impl SimWriter {
    pub fn new(plan: &WritePlan) -> Self {
        let mut plan = plan.clone();
        plan.eintr.sort();
        SimWriter {
            out: Vec::new(),
            rng: Rng::new(plan.chunk_seed ^ 0x3717_E44B),
            plan,
            pow: 1,
            burst_left: 0,
            eintr_idx: 0,
            err_done: false,
            stats: Rc::new(ChanStats::default()),
            max_calls: u64::MAX,
        }
    }
}

impl Write for SimWriter {
    fn write(&mut self, buf: &[u8]) -> io::Result<usize> {
        let call = self.stats.calls.get();
        self.stats.calls.set(call + 1);
        if call + 1 > self.max_calls {
            std::panic::resume_unwind(Box::new(ChannelBudgetExceeded { calls: call + 1 }));
        }
        if buf.is_empty() {
            return Ok(0);
        }
        if self.burst_left == 0 {
            while self.eintr_idx < self.plan.eintr.len() && self.plan.eintr[self.eintr_idx].0 <= call {
                self.burst_left += self.plan.eintr[self.eintr_idx].1;
                self.eintr_idx += 1;
            }
        }
        if self.burst_left > 0 {
            self.burst_left -= 1;
            self.stats.eintr_fired.set(self.stats.eintr_fired.get() + 1);
            return Err(io::Error::new(ErrorKind::Interrupted, "simulated EINTR"));
        }
        let pos = self.out.len();
        let mut limit = usize::MAX;
        if let Some(err) = &self.plan.err {
            if !self.err_done || err.sticky {
                if pos >= err.at {
                    self.err_done = true;
                    self.stats.err_fired.set(self.stats.err_fired.get() + 1);
                    return Err(io::Error::new(kind_from_name(&err.kind), "simulated I/O error"));
                }
                limit = err.at - pos;
            }
        }
        if let Some(z) = self.plan.zero_at {
            if pos >= z {
                self.stats.eof_reads.set(self.stats.eof_reads.get() + 1);
                return Ok(0);
            }
            limit = limit.min(z - pos);
        }
        let avail = buf.len().min(limit);
        let want = match self.plan.chunk {
            Chunk::Full => avail,
            Chunk::One => 1,
            Chunk::Random(k) => 1 + self.rng.usize(k.max(1)),
            Chunk::Pow2 => {
                let p = self.pow;
                self.pow = (self.pow * 2).min(1 << 16);
                p
            }
            Chunk::AllButOne => {
                if avail > 1 {
                    avail - 1
                } else {
                    1
                }
            }
            Chunk::Fixed(n) => n.max(1),
        };
        let n = want.min(avail);
        if n < buf.len() {
            self.stats.short_ops.set(self.stats.short_ops.get() + 1);
        }
        self.out.extend_from_slice(&buf[..n]);
        self.stats.delivered.set(self.out.len());
        Ok(n)
    }

    fn flush(&mut self) -> io::Result<()> {
        Ok(())
    }
}

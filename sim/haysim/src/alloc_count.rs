//! Net live heap blocks and bytes of the process, counted by a wrapping global allocator. Only compiled into
//! the ASan build (`--cfg verif_asan`), where it is the cheap first stage of the leak oracle: a
//! history whose net block count is not zero is run again (lazy statics and caches are warm then)
//! and, if it still is not zero, LeakSanitizer decides.

#[cfg(verif_asan)]
mod imp {
    use std::alloc::{GlobalAlloc, Layout, System};
    use std::sync::atomic::{AtomicI64, Ordering};

    pub static LIVE: AtomicI64 = AtomicI64::new(0);
    /// sum of the sizes requested at allocation minus the sizes stated at deallocation: with net
    /// zero blocks this is zero exactly when every block was given back with the size it was
    /// allocated with (the `GlobalAlloc` contract; a `CString` rebuilt from a shorter `strlen` breaks it)
    pub static BYTES: AtomicI64 = AtomicI64::new(0);

    pub struct Counting;

    // SAFETY: forwards every request unchanged to the system allocator
    unsafe impl GlobalAlloc for Counting {
        unsafe fn alloc(&self, l: Layout) -> *mut u8 {
            let p = System.alloc(l);
            if !p.is_null() {
                LIVE.fetch_add(1, Ordering::Relaxed);
                BYTES.fetch_add(l.size() as i64, Ordering::Relaxed);
            }
            p
        }
        unsafe fn alloc_zeroed(&self, l: Layout) -> *mut u8 {
            let p = System.alloc_zeroed(l);
            if !p.is_null() {
                LIVE.fetch_add(1, Ordering::Relaxed);
                BYTES.fetch_add(l.size() as i64, Ordering::Relaxed);
            }
            p
        }
        unsafe fn dealloc(&self, p: *mut u8, l: Layout) {
            LIVE.fetch_sub(1, Ordering::Relaxed);
            BYTES.fetch_sub(l.size() as i64, Ordering::Relaxed);
            System.dealloc(p, l)
        }
        unsafe fn realloc(&self, p: *mut u8, l: Layout, n: usize) -> *mut u8 {
            let q = System.realloc(p, l, n);
            if !q.is_null() {
                BYTES.fetch_add(n as i64 - l.size() as i64, Ordering::Relaxed);
            }
            q
        }
    }

    #[global_allocator]
    static GLOBAL: Counting = Counting;
}

/// `None` outside the ASan build.
pub fn live_blocks() -> Option<i64> {
    #[cfg(verif_asan)]
    {
        Some(imp::LIVE.load(std::sync::atomic::Ordering::Relaxed))
    }
    #[cfg(not(verif_asan))]
    {
        None
    }
}

/// `None` outside the ASan build.
pub fn live_bytes() -> Option<i64> {
    #[cfg(verif_asan)]
    {
        Some(imp::BYTES.load(std::sync::atomic::Ordering::Relaxed))
    }
    #[cfg(not(verif_asan))]
    {
        None
    }
}

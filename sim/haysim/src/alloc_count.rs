//! Net live heap blocks of the process, counted by a wrapping global allocator. Only compiled into
//! the ASan build (`--cfg verif_asan`), where it is the cheap first stage of the leak oracle: a
//! history whose net block count is not zero is run again (lazy statics and caches are warm then)
//! and, if it still is not zero, LeakSanitizer decides.

#[cfg(verif_asan)]
mod imp {
    use std::alloc::{GlobalAlloc, Layout, System};
    use std::sync::atomic::{AtomicI64, Ordering};

    pub static LIVE: AtomicI64 = AtomicI64::new(0);

    pub struct Counting;

    // SAFETY: forwards every request unchanged to the system allocator
    unsafe impl GlobalAlloc for Counting {
        unsafe fn alloc(&self, l: Layout) -> *mut u8 {
            let p = System.alloc(l);
            if !p.is_null() {
                LIVE.fetch_add(1, Ordering::Relaxed);
            }
            p
        }
        unsafe fn alloc_zeroed(&self, l: Layout) -> *mut u8 {
            let p = System.alloc_zeroed(l);
            if !p.is_null() {
                LIVE.fetch_add(1, Ordering::Relaxed);
            }
            p
        }
        unsafe fn dealloc(&self, p: *mut u8, l: Layout) {
            LIVE.fetch_sub(1, Ordering::Relaxed);
            System.dealloc(p, l)
        }
        unsafe fn realloc(&self, p: *mut u8, l: Layout, n: usize) -> *mut u8 {
            System.realloc(p, l, n)
        }
    }

    #[global_allocator]
    static GLOBAL: Counting = Counting;
}

/// `None` outside the ASan build.
pub fn live_blocks() -> Option<i64> {
    #[cfg(verif_asan)]
    {
        Some(imp::LIVE.load(std::sync::atomic::Ordering::Relaxed))
    }
    #[cfg(not(verif_asan))]
    {
        None
    }
}

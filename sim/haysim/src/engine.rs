//! Engine interface: a property check is a set of work units, each an ordered list of explicit
//! cases; a worker runs units, the driver shards them over processes and merges the results.

use crate::harness::{Case, Outcome};
use std::path::PathBuf;

#[derive(Clone, Copy, Debug, PartialEq, Eq)]
pub enum Tier {
    Quick,
    Thorough,
}

#[derive(Clone, Debug)]
pub struct Ctx {
    pub repo: PathBuf,
    pub tier: Tier,
    pub seed: u64,
}

#[derive(Clone, Debug)]
pub struct UnitSpec {
    pub id: u64,
    pub name: String,
    /// every case of the unit runs in its own child process (may kill the process)
    pub isolated: bool,
    /// the unit enumerates a finite space completely
    pub exhaustive: bool,
}

pub trait Engine {
    fn prop(&self) -> &'static str;
    fn units(&self) -> Vec<UnitSpec>;
    fn cases(&self, unit: &UnitSpec) -> Box<dyn Iterator<Item = Case> + '_>;
    fn run(&self, case: &Case) -> Outcome;
    fn rule(&self) -> String;
    /// Turns a seeded case into a fully explicit one (e.g. the realised schedule replaces the
    /// scheduler seed) before it is stored in a replay file.
    fn explicit(&self, case: &Case) -> Case {
        case.clone()
    }
    fn components(&self) -> (Vec<&'static str>, Vec<&'static str>) {
        (vec![], vec![])
    }
    /// `Some(k)`: every k-th case of a unit (every case when k == 1) is run a second time alone in a
    /// fresh child process and the two fingerprints are compared: a result that depends on what
    /// the worker process did before (process-wide state in the library) is a history dependence.
    fn isolate_every(&self, _unit: &UnitSpec) -> Option<u64> {
        None
    }
    /// `false`: only a comparison child that dies counts, its fingerprint is not compared
    fn isolate_compares_fingerprints(&self) -> bool {
        true
    }
}

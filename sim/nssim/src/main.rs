//! nssim — C14: the real `Namespace` under a scheduler the simulator owns.
//!
//! Real code: libhaystack's Namespace / Reflection / filter nodes and dashmap 6.1.0's sharding,
//! hashing and table code. Stub: dashmap's shard lock (replaced by a shuttle-scheduled lock with
//! the same admission policy, /verif/shims/dashmap/src/lock.rs), the shard count
//! (`available_parallelism()*4` -> a knob) and the OS entropy behind `RandomState` (interposed
//! `getrandom`). One case = one shuttle execution on a fresh OS thread, so a run is a pure
//! function of its explicit case.

#[path = "../../haysim/src/cli.rs"]
mod cli;
#[path = "../../haysim/src/engine.rs"]
mod engine;
#[path = "../../haysim/src/harness.rs"]
mod harness;
#[path = "../../haysim/src/rng.rs"]
mod rng;
#[path = "../../haysim/src/simio.rs"]
mod simio;

use engine::{Ctx, Engine, Tier, UnitSpec};
use harness::*;
use libhaystack::defs::namespace::{DefDict, Namespace};
use libhaystack::encoding::zinc::decode::from_str as zinc_from_str;
use libhaystack::filter::eval::EvalContext;
use libhaystack::filter::{Eval, Filter};
use libhaystack::val::*;
use rng::{fnv1a, mix, Rng};
use serde::{Deserialize, Serialize};
use std::collections::BTreeMap;
use std::sync::atomic::{AtomicU64, Ordering};
use std::sync::{Arc, Mutex as StdMutex};

// ---------------------------------------------------------------------------------------------
// hidden randomness: std's RandomState asks the libc symbol `getrandom` for its keys; defining
// it here makes HashSet/HashMap/DashMap hashing a function of the run seed.

static ENTROPY: AtomicU64 = AtomicU64::new(0x1234_5678_9abc_def0);

#[no_mangle]
/// # Safety
/// `buf` must be valid for `len` bytes (contract of getrandom(2)).
pub unsafe extern "C" fn getrandom(buf: *mut u8, len: usize, _flags: u32) -> isize {
    let mut x = ENTROPY.load(Ordering::Relaxed);
    for i in 0..len {
        if i % 8 == 0 {
            x = rng::splitmix(&mut x.clone()).wrapping_add(i as u64);
            ENTROPY.store(x, Ordering::Relaxed);
        }
        *buf.add(i) = (x >> ((i % 8) * 8)) as u8;
    }
    len as isize
}

// ---------------------------------------------------------------------------------------------
// workload

#[derive(Serialize, Deserialize, Clone, Debug, PartialEq)]
pub struct Op {
    /// query name
    pub q: String,
    #[serde(default)]
    pub a: String,
    #[serde(default)]
    pub b: String,
    /// record tags for reflect / relationship / filter queries ("tag" or "tag=@ref")
    #[serde(default)]
    pub rec: Vec<String>,
}

#[derive(Serialize, Deserialize, Clone, Debug, PartialEq)]
pub struct Sched {
    /// "random" | "pct" | "replay"
    pub mode: String,
    #[serde(default)]
    pub seed: u64,
    #[serde(default)]
    pub depth: usize,
    /// explicit schedule: task id chosen at each scheduling point
    #[serde(default)]
    pub trace: Vec<usize>,
}

fn names(defs: &[&Dict]) -> String {
    let mut v: Vec<&str> = defs.iter().map(|d| d.def_name().as_str()).collect();
    v.sort();
    v.join(",")
}

fn names_owned(defs: &[Dict]) -> String {
    let mut v: Vec<&str> = defs.iter().map(|d| d.def_name().as_str()).collect();
    v.sort();
    v.join(",")
}

/// "tag" = marker, "tag=@id" = Ref, "tag=$text" = Str, "tag=#1.5" = Number: records with the same
/// tag names but different kinds of values are different subjects for reflection.
fn record_of(tags: &[String]) -> Dict {
    let mut d = Dict::new();
    for t in tags {
        if t == "reenter" || t == "moved" || t.starts_with("rpanic=") {
            // instructions to the simulated resolver, not tags of the record
            continue;
        }
        if let Some((k, r)) = t.split_once("=@") {
            d.insert(k.to_string(), Value::make_ref(r));
        } else if let Some((k, r)) = t.split_once("=$") {
            d.insert(k.to_string(), Value::make_str(r));
        } else if let Some((k, r)) = t.split_once("=#") {
            d.insert(k.to_string(), Value::make_number(r.parse().unwrap_or(0.0)));
        } else {
            d.insert(t.to_string(), Value::Marker);
        }
    }
    d
}

/// The record store behind relationship queries: a fixed little database derived from the op.
fn store(with_ids: bool, moved: bool) -> BTreeMap<&'static str, Vec<&'static str>> {
    let mut m = BTreeMap::new();
    m.insert("r0", vec!["id=@r0", "d0"]);
    if moved {
        // the same database a little later: r1 has been moved under r3 and carries other tags
        m.insert("r1", vec!["id=@r1", "d2", "xRef=@r3"]);
    } else {
        m.insert("r1", vec!["id=@r1", "d1", "xRef=@r0"]);
    }
    if with_ids {
        m.insert("r2", vec!["id=@r2", "d2", "xRef=@r1", "yRef=@r3"]);
        m.insert("r3", vec!["id=@r3", "d3", "yRef=@r2", "xRef=@r3"]);
    } else {
        // the records of the cycle do not carry their own id (the store finds them by ref value)
        m.insert("r2", vec!["d2", "yRef=@r3"]);
        m.insert("r3", vec!["d3", "yRef=@r2", "xRef=@r3"]);
    }
    m
}

/// Payload of the injected resolver failure.
struct ResolverFault;

/// Evaluates one query; the answer is canonical text (def names sorted: the order of the
/// returned vectors comes from HashSet iteration and is not part of the answer).
pub fn answer(ns: &'static Namespace<'static>, op: &Op) -> String {
    let a = Symbol::from(op.a.as_str());
    let b = Symbol::from(op.b.as_str());
    match op.q.as_str() {
        "supertypes_of" => names(&ns.supertypes_of(&a)),
        "all_supertypes_of" => names(&ns.all_supertypes_of(&a)),
        "inheritance" => names(&ns.inheritance(&a)),
        "fits" => ns.fits(&a, &b).to_string(),
        "fits_marker" => ns.fits_marker(&a).to_string(),
        "fits_val" => ns.fits_val(&a).to_string(),
        "fits_choice" => ns.fits_choice(&a).to_string(),
        "fits_entity" => ns.fits_entity(&a).to_string(),
        "subtypes_of" => names_owned(ns.subtypes_of(&a)),
        "all_subtypes_of" => names(&ns.all_subtypes_of(&a)),
        "has_subtype" => ns.has_subtype(&a).to_string(),
        "choices_for" => names_owned(ns.choices_for(&a)),
        "associations" => names(&ns.associations(&a, &b)),
        "is" => names(&ns.is(&a)),
        "tags" => names(&ns.tags(&a)),
        "tag_on" => names(&ns.tag_on(&a)),
        "implementation" => names(&ns.implementation(&a)),
        "reflect" => {
            let rec = record_of(&op.rec);
            let r = ns.reflect(&rec);
            format!("defs={} entity={} fits({})={}", names(&r.defs), r.entity_type.def_name(), op.b, r.fits(&b))
        }
        "def_of_dict" => {
            let rec = record_of(&op.rec);
            ns.reflect(&rec).entity_type.def_name().to_string()
        }
        "protos" => {
            let rec = record_of(&op.rec);
            let mut v: Vec<String> = ns.protos(&rec).iter().map(|d| format!("{d:?}")).collect();
            v.sort();
            v.join(";")
        }
        "has_relationship" => {
            let rec = record_of(&op.rec);
            let db = store(!op.rec.iter().any(|t| t == "noIds"), op.rec.iter().any(|t| t == "moved"));
            // fault: the resolver fails (panics) at its k-th callback; the caller catches it - whatever
            // the namespace was doing then must not change what it answers afterwards
            let fail_at: Option<u32> = op.rec.iter().find_map(|t| t.strip_prefix("rpanic=")).and_then(|k| k.parse().ok());
            // bounded liveness of the walk: the store has four records, a terminating walk follows
            // each ref a few times at most
            let calls = std::cell::Cell::new(0u32);
            // a resolver may consult the namespace itself (e.g. to decide by def which record to
            // hand out): queries of its own, on this thread, inside the relationship query. If the
            // outer query still holds a cache guard when it calls back, the first of these that has
            // to fill an entry of the same shard never returns.
            let reenter = op.rec.iter().any(|t| t == "reenter");
            let resolve = |r: &Ref| {
                calls.set(calls.get() + 1);
                if calls.get() > 2000 {
                    panic!("VERIF relationship query made more than 2000 resolver callbacks over a store of 4 records: it does not terminate");
                }
                if fail_at == Some(calls.get()) {
                    std::panic::resume_unwind(Box::new(ResolverFault));
                }
                if reenter {
                    let mut names: Vec<&Symbol> = ns.defs.keys().collect();
                    names.sort();
                    for n in names {
                        let _ = ns.inheritance(n);
                        let _ = ns.all_subtypes_of(n);
                    }
                }
                db.get(r.value.as_str()).map(|tags| record_of(&tags.iter().map(|s| s.to_string()).collect::<Vec<_>>()))
            };
            let term = if op.b.is_empty() { None } else { Some(b.clone()) };
            let target = op.rec.iter().find_map(|t| t.strip_prefix("target=@")).map(Ref::from);
            match std::panic::catch_unwind(std::panic::AssertUnwindSafe(|| ns.has_relationship(&rec, &a, &term, &target, &resolve))) {
                Ok(r) => r.to_string(),
                Err(p) if p.is::<ResolverFault>() => "resolver failed".to_string(),
                Err(p) => std::panic::resume_unwind(p),
            }
        }
        "filter" => {
            let rec = record_of(&op.rec);
            match Filter::try_from(op.a.as_str()) {
                Ok(f) => f.eval(&EvalContext::make(&rec, ns, &rec)).to_string(),
                Err(e) => format!("parse error {e}"),
            }
        }
        "filter_ctx" => {
            // one evaluation context kept alive and pointed at one record after the other (its fields
            // are public): whatever it remembers about a record must not outlive the assignment
            let recs: Vec<Dict> = op.rec.split(|t| t == "|").map(record_of).collect();
            match Filter::try_from(op.a.as_str()) {
                Ok(f) if !recs.is_empty() => {
                    let mut ctx = EvalContext::make(&recs[0], ns, &recs[0]);
                    let mut reused: Vec<bool> = Vec::new();
                    for r in &recs {
                        ctx.dict = r;
                        ctx.resolver = r;
                        reused.push(f.eval(&ctx));
                    }
                    let fresh: Vec<bool> = recs.iter().map(|r| f.eval(&EvalContext::make(r, ns, r))).collect();
                    if reused == fresh {
                        format!("{fresh:?}")
                    } else {
                        format!("CONTEXT-HISTORY a reused evaluation context answers {reused:?}, fresh contexts answer {fresh:?}")
                    }
                }
                Ok(_) => "no records".into(),
                Err(e) => format!("parse error {e}"),
            }
        }
        other => format!("unknown query {other}"),
    }
}

pub const QUERIES: &[&str] = &[
    "supertypes_of", "all_supertypes_of", "inheritance", "fits", "fits_marker", "fits_val", "fits_choice", "fits_entity", "subtypes_of", "all_subtypes_of",
    "has_subtype", "choices_for", "associations", "is", "tags", "tag_on", "implementation", "reflect", "def_of_dict", "protos", "has_relationship", "filter", "filter_ctx",
];

/// Seeded acyclic taxonomy (multiple inheritance, diamonds, conjuncts, feature keys, undefined
/// supertypes, choices, tagOn, a transitive relationship) as a Zinc defs grid.
pub fn gen_taxonomy(rng: &mut Rng) -> (String, Vec<String>) {
    // a quarter of the taxonomies are large enough for defs with very many direct supertypes
    let n = if rng.chance(1, 4) { rng.range(24, 48) } else { rng.range(3, 24) };
    gen_taxonomy_n(rng, n)
}

pub fn gen_taxonomy_n(rng: &mut Rng, n: usize) -> (String, Vec<String>) {
    let mut rows: Vec<String> = Vec::new();
    let mut syms: Vec<String> = Vec::new();
    let mut row = |def: &str, is: &[&str], extra: &[(&str, String)]| -> String {
        let cols = ["def", "is", "tagOn", "containedBy", "transitive", "reciprocalOf", "computedFromReciprocal", "mandatory", "children", "capacity", "doc"];
        let mut cells: Vec<String> = vec![String::new(); cols.len()];
        cells[0] = format!("^{def}");
        if !is.is_empty() {
            cells[1] = format!("[{}]", is.iter().map(|s| format!("^{s}")).collect::<Vec<_>>().join(","));
        }
        for (k, v) in extra {
            let i = cols.iter().position(|c| c == k).unwrap();
            cells[i] = v.clone();
        }
        cells.join(",")
    };
    // the fixed core the library's queries look for by name
    for (d, is) in [
        ("marker", vec![]),
        ("val", vec![]),
        ("entity", vec!["marker"]),
        ("choice", vec!["marker"]),
        ("symbol", vec!["val"]),
        ("ref", vec!["val"]),
        ("list", vec!["val"]),
        ("association", vec!["list"]),
        ("relationship", vec!["symbol"]),
        ("lib", vec!["marker"]),
    ] {
        // the `entity` def is not the same in every namespace of a process (and may be missing)
        if d == "entity" {
            match rng.below(8) {
                0 => continue,
                1 | 2 => {
                    rows.push(row(d, &is, &[("doc", format!("\"entity of taxonomy {}\"", rng.below(1000)))]));
                    syms.push(d.to_string());
                    continue;
                }
                _ => {}
            }
        }
        rows.push(row(d, &is, &[]));
        syms.push(d.to_string());
    }
    rows.push(row("is", &["association"], &[]));
    rows.push(row("tagOn", &["association"], &[]));
    rows.push(row("tags", &["association"], &[("computedFromReciprocal", "M".into()), ("reciprocalOf", "^tagOn".into())]));
    rows.push(row("containedBy", &["relationship"], &[("transitive", "M".into()), ("reciprocalOf", "^contains".into())]));
    rows.push(row("contains", &["relationship"], &[("reciprocalOf", "^containedBy".into())]));
    for s in ["is", "tagOn", "tags", "containedBy", "contains"] {
        syms.push(s.to_string());
    }
    let mut d_names: Vec<String> = Vec::new();
    // Depth of the `is` graph is kept <= MAX_LEVEL, like real ontologies: the library walks every
    // *path* of the graph (no visited set in all_supertypes_of / inheritance), so the cost of one
    // query grows exponentially with depth under multiple inheritance. That is a performance
    // matter no given property speaks about (DESIGN.md section 7), and a bounded-liveness oracle
    // must not be tripped by a query that is merely slow.
    const MAX_LEVEL: usize = 6;
    let mut levels: Vec<usize> = Vec::new();
    // one taxonomy in six has defs that join the namespace after `make` (see make_ns_of)
    let late_mode = rng.chance(1, 6);
    for i in 0..n {
        let name = format!("d{i}");
        let mut is: Vec<String> = Vec::new();
        let eligible: Vec<usize> = (0..d_names.len()).filter(|j| levels[*j] < MAX_LEVEL).collect();
        // size outliers: now and then a def with very many direct supertypes
        let k = if eligible.len() >= 17 && rng.chance(1, if n <= 48 { 5 } else { 24 }) { rng.range(17, eligible.len().min(48)) } else { rng.range(1, 3) };
        let mut level = 1;
        for _ in 0..k {
            let parent = if eligible.is_empty() || rng.chance(1, 5) {
                rng.pick_str(&["entity", "marker", "choice", "val", "ghost"]).to_string()
            } else {
                let j = eligible[rng.usize(eligible.len())];
                level = level.max(levels[j] + 1);
                d_names[j].clone()
            };
            if !is.contains(&parent) {
                is.push(parent);
            }
        }
        levels.push(level);
        let isr: Vec<&str> = is.iter().map(|s| s.as_str()).collect();
        let mut extra: Vec<(&str, String)> = Vec::new();
        if !d_names.is_empty() && rng.chance(1, 4) {
            extra.push(("tagOn", format!("[^{}]", d_names[rng.usize(d_names.len())])));
        }
        if rng.chance(1, 6) {
            extra.push(("mandatory", "M".into()));
        }
        if rng.chance(1, 8) {
            extra.push(("children", "\"d1\\nd2 d3\"".into()));
        }
        // defs carry ordinary value tags too: quantities in different units, text
        if rng.chance(1, 3) {
            extra.push(("capacity", format!("{}{}", rng.range(1, 12), rng.pick_str(&["kW", "cfm", "m", "", "°C"]))));
        }
        if late_mode && rng.chance(1, 4) {
            extra.push(("doc", format!("\"{LATE_DOC}\"")));
        } else if rng.chance(1, 5) {
            extra.push(("doc", format!("\"about d{i}\"")));
        }
        rows.push(row(&name, &isr, &extra));
        d_names.push(name.clone());
        syms.push(name);
    }
    // conjuncts, feature keys, ref tags carrying the relationship
    for _ in 0..rng.range(0, 3 + n / 16) {
        if d_names.len() >= 2 {
            let a = d_names[rng.usize(d_names.len())].clone();
            let b = d_names[rng.usize(d_names.len())].clone();
            if a != b {
                let name = format!("{a}-{b}");
                if !syms.contains(&name) {
                    rows.push(row(&name, &[d_names[rng.usize(d_names.len())].as_str()], &[]));
                    syms.push(name);
                }
            }
        }
    }
    for i in 0..rng.range(0, 2) {
        let name = format!("lib:l{i}");
        rows.push(row(&name, &["lib"], &[]));
        syms.push(name);
    }
    for r in ["xRef", "yRef"] {
        let target = d_names[rng.usize(d_names.len())].clone();
        rows.push(row(r, &["ref"], &[("containedBy", format!("^{target}"))]));
        syms.push(r.to_string());
    }
    syms.push("ghost".into());
    syms.push("nothing".into());
    let mut text = String::from("ver:\"3.0\"\ndef,is,tagOn,containedBy,transitive,reciprocalOf,computedFromReciprocal,mandatory,children,capacity,doc\n");
    for r in rows {
        text.push_str(&r);
        text.push('\n');
    }
    (text, syms)
}

pub fn gen_op(rng: &mut Rng, syms: &[String], hot: &[String]) -> Op {
    let q = *rng.pick(QUERIES);
    gen_op_of(rng, q, syms, hot)
}

/// One query of kind `q`.
pub fn gen_op_of(rng: &mut Rng, q: &str, syms: &[String], hot: &[String]) -> Op {
    // threads hit overlapping symbol sets: mostly the hot ones (the contended case)
    let pick = |rng: &mut Rng| -> String {
        if rng.chance(3, 4) {
            hot[rng.usize(hot.len())].clone()
        } else {
            syms[rng.usize(syms.len())].clone()
        }
    };
    let mut op = Op { q: q.to_string(), a: pick(rng), b: String::new(), rec: Vec::new() };
    match q {
        "fits" => op.b = pick(rng),
        "associations" => op.b = rng.pick_str(&["is", "tagOn", "tags", "containedBy", "nothing"]).to_string(),
        "reflect" | "def_of_dict" | "protos" => {
            let k = rng.range(1, 4);
            for _ in 0..k {
                let t = pick(rng);
                // the parts of a conjunct appear together, as markers or as tags that hold a value
                for part in t.split('-') {
                    op.rec.push(match rng.below(8) {
                        0 => format!("{part}=$n/a"),
                        1 => format!("{part}=#1"),
                        _ => part.to_string(),
                    });
                }
                if t.contains('-') && rng.chance(1, 2) {
                    op.rec.push(t.clone());
                }
            }
            op.b = pick(rng);
            op.a.clear();
        }
        "has_relationship" => {
            op.a = rng.pick_str(&["containedBy", "contains", "is", "nothing"]).to_string();
            if rng.chance(1, 2) {
                op.b = pick(rng);
            }
            op.rec = vec![format!("id=@r{}", rng.below(4)), pick(rng), format!("xRef=@r{}", rng.below(5)), format!("yRef=@r{}", rng.below(4))];
            if rng.chance(2, 3) {
                op.rec.push(format!("target=@r{}", rng.below(5)));
            }
            if rng.chance(1, 3) {
                op.rec.push("noIds".into());
            }
            if rng.chance(1, 3) {
                op.rec.push("reenter".into());
            }
            if rng.chance(1, 4) {
                op.rec.push("moved".into());
            }
            if rng.chance(1, 5) {
                op.rec.push(format!("rpanic={}", rng.range(1, 3)));
            }
        }
        "filter_ctx" => {
            let s = pick(rng);
            op.a = match rng.below(3) {
                0 => format!("^{s}"),
                1 => format!("^{s} and x"),
                _ => format!("x or ^{s}"),
            };
            for i in 0..rng.range(2, 4) {
                if i > 0 {
                    op.rec.push("|".into());
                }
                // with and without the tag in question, other tags around it
                if rng.chance(1, 2) {
                    op.rec.push(s.clone());
                }
                op.rec.push(pick(rng));
                if rng.chance(1, 2) {
                    op.rec.push("x".into());
                }
            }
        }
        "filter" => {
            let s = pick(rng);
            op.a = match rng.below(3) {
                0 => format!("^{s}"),
                1 => format!("containedBy? ^{s} @r{}", rng.below(4)),
                _ => format!("^{s} and containedBy? @r{}", rng.below(4)),
            };
            op.rec = vec![format!("id=@r{}", rng.below(4)), pick(rng), pick(rng), format!("xRef=@r{}", rng.below(4))];
        }
        _ => {}
    }
    op
}

// ---------------------------------------------------------------------------------------------
// the simulator-owned scheduler: one seed decides every scheduling point; the realised schedule
// is recorded and can be replayed explicitly

struct SimScheduler {
    sched: Sched,
    rng: Rng,
    started: bool,
    pos: usize,
    steps: usize,
    priorities: BTreeMap<usize, i64>,
    change_points: Vec<usize>,
    trace: Arc<StdMutex<Vec<usize>>>,
    switches: Arc<AtomicU64>,
}

impl SimScheduler {
    fn new(sched: &Sched, trace: Arc<StdMutex<Vec<usize>>>, switches: Arc<AtomicU64>) -> Self {
        let mut rng = Rng::new(mix(&[sched.seed, 0x5c4ed]));
        let mut change_points = Vec::new();
        if sched.mode == "pct" {
            for _ in 1..sched.depth.max(1) {
                change_points.push(rng.usize(400));
            }
        }
        SimScheduler { sched: sched.clone(), rng, started: false, pos: 0, steps: 0, priorities: BTreeMap::new(), change_points, trace, switches }
    }
}

impl shuttle::scheduler::Scheduler for SimScheduler {
    fn new_execution(&mut self) -> Option<shuttle::scheduler::Schedule> {
        if self.started {
            return None;
        }
        self.started = true;
        Some(shuttle::scheduler::Schedule::new(self.sched.seed))
    }

    fn next_task(
        &mut self,
        runnable: &[&shuttle::scheduler::Task],
        current: Option<shuttle::scheduler::TaskId>,
        is_yielding: bool,
    ) -> Option<shuttle::scheduler::TaskId> {
        let ids: Vec<usize> = runnable.iter().map(|t| usize::from(t.id())).collect();
        let cur: Option<usize> = current.map(usize::from);
        let choice = match self.sched.mode.as_str() {
            "replay" => {
                let want = self.sched.trace.get(self.pos).copied();
                self.pos += 1;
                match want {
                    Some(w) if ids.contains(&w) => w,
                    // a shrunk workload may not offer the recorded task: stay deterministic
                    _ => *ids.iter().min().unwrap(),
                }
            }
            "pct" => {
                for id in &ids {
                    if !self.priorities.contains_key(id) {
                        let p = 1000 + self.rng.below(1000) as i64;
                        self.priorities.insert(*id, p);
                    }
                }
                if let Some(c) = cur {
                    if self.change_points.contains(&self.steps) || is_yielding {
                        let low = self.priorities.values().min().copied().unwrap_or(0) - 1;
                        self.priorities.insert(c, low);
                    }
                }
                *ids.iter().max_by_key(|id| self.priorities[id]).unwrap()
            }
            _ => ids[self.rng.usize(ids.len())],
        };
        self.steps += 1;
        if ids.len() > 1 && cur.is_some_and(|c| c != choice && ids.contains(&c)) {
            self.switches.fetch_add(1, Ordering::Relaxed);
        }
        self.trace.lock().unwrap().push(choice);
        Some(shuttle::scheduler::TaskId::from(choice))
    }

    fn next_u64(&mut self) -> u64 {
        self.rng.next_u64()
    }
}

// ---------------------------------------------------------------------------------------------
// one execution

#[derive(Default, Debug)]
struct RunReport {
    mismatches: Vec<String>,
    answers: u64,
    answers_hash: u64,
}

struct Exec {
    report: Option<RunReport>,
    panic: Option<(String, String)>,
    trace: Vec<usize>,
    switches: u64,
}

fn threads_of(case: &Case) -> Vec<Vec<Op>> {
    case.extra.get("threads").and_then(|v| serde_json::from_value(v.clone()).ok()).unwrap_or_default()
}

fn sched_of(case: &Case) -> Sched {
    case.extra.get("sched").and_then(|v| serde_json::from_value(v.clone()).ok()).unwrap_or(Sched { mode: "random".into(), seed: 0, depth: 0, trace: vec![] })
}

fn execute(case: &Case) -> Exec {
    let defs_text = String::from_utf8_lossy(&case.doc_bytes()).into_owned();
    let threads = threads_of(case);
    let sched = sched_of(case);
    let shards = case.extra_usize("shards").unwrap_or(4);
    let hash_seed = case.extra.get("hash_seed").and_then(|v| v.as_u64()).unwrap_or(0);
    let stack_mb: usize = case.extra_usize("stack_mb").unwrap_or(1);
    let pair_b: Option<String> = case.extra_str("pair_b").map(|h| String::from_utf8_lossy(&unhex(h)).into_owned());
    // bounded liveness: 10^6 scheduling steps for ordinary runs; bulk sweeps make thousands of
    // queries, their budget is 2000 steps per query
    let n_queries: usize = threads.iter().map(|t| t.len()).sum();
    let max_steps: usize = case.extra_usize("max_steps").unwrap_or((1_000_000usize).max(2000 * n_queries));
    let trace = Arc::new(StdMutex::new(Vec::new()));
    let switches = Arc::new(AtomicU64::new(0));
    let (t2, s2) = (trace.clone(), switches.clone());
    // fresh OS thread: std::hash::RandomState keeps a per-thread key counter
    let handle = std::thread::Builder::new()
        .stack_size(16 << 20)
        .spawn(move || -> (Option<RunReport>, Option<(String, String)>) {
            ENTROPY.store(mix(&[hash_seed, 0xe417]), Ordering::Relaxed);
            dashmap::VERIF_SHARD_AMOUNT.store(shards, Ordering::Relaxed);
            let slot: Arc<StdMutex<Option<RunReport>>> = Arc::new(StdMutex::new(None));
            let slot2 = slot.clone();
            let mut cfg = shuttle::Config::new();
            cfg.stack_size = stack_mb << 20;
            cfg.failure_persistence = shuttle::FailurePersistence::None;
            cfg.max_steps = shuttle::MaxSteps::FailAfter(max_steps);
            cfg.silence_warnings = true;
            let scheduler = SimScheduler::new(&sched, t2, s2);
            let runner = shuttle::Runner::new(scheduler, cfg);
            let defs_text = Arc::new(defs_text);
            let threads = Arc::new(threads);
            let r = std::panic::catch_unwind(std::panic::AssertUnwindSafe(|| {
                runner.run(move || match &pair_b {
                    Some(b) => scenario_pair(&defs_text, b, &threads[0], &slot2),
                    None => scenario(&defs_text, &threads, &slot2),
                });
            }));
            let report = slot.lock().unwrap().take();
            match r {
                Ok(_) => (report, None),
                Err(p) => {
                    let msg = if let Some(s) = p.downcast_ref::<&str>() {
                        s.to_string()
                    } else if let Some(s) = p.downcast_ref::<String>() {
                        s.clone()
                    } else {
                        "<non-string panic>".into()
                    };
                    (report, Some((msg, last_panic_loc())))
                }
            }
        })
        .expect("spawn");
    let (report, panic) = handle.join().unwrap_or((None, Some(("run thread died".into(), String::new()))));
    let trace = trace.lock().unwrap().clone();
    Exec { report, panic, trace, switches: switches.load(Ordering::Relaxed) }
}

fn last_panic_loc() -> String {
    harness::take_last_panic().map(|(m, l)| format!("{l} :: {m}")).unwrap_or_default()
}

fn make_ns(defs_text: &str) -> &'static Namespace<'static> {
    let grid = zinc_from_str(defs_text).ok().and_then(|v| Grid::try_from(&v).ok()).unwrap_or_default();
    make_ns_of(&grid)
}

/// The doc text that marks a def as added after `Namespace::make`.
const LATE_DOC: &str = "verif-late";

/// A namespace over `grid`. Defs whose doc is [LATE_DOC] are not given to `make` but put into the
/// public `defs` map afterwards, the way an application extends a loaded library with defs of its
/// own: the indexes `make` computed do not know them, the lazily filled caches meet them later -
/// and whatever a query answers about them, it answers it whenever it is asked.
fn make_ns_of(grid: &Grid) -> &'static Namespace<'static> {
    let is_late = |d: &Dict| d.get_str("doc").is_some_and(|s| s.value == LATE_DOC);
    if !grid.rows.iter().any(is_late) {
        return Box::leak(Box::new(Namespace::make(grid.clone())));
    }
    let early: Vec<Dict> = grid.rows.iter().filter(|d| !is_late(d)).cloned().collect();
    let mut ns = Namespace::make(Grid::make_from_dicts(early));
    for d in grid.rows.iter().filter(|d| is_late(d)) {
        if let Some(sym) = d.get_symbol("def") {
            ns.defs.insert(sym.clone(), d.clone());
        }
    }
    Box::leak(Box::new(ns))
}

unsafe fn free_ns(ns: &'static Namespace<'static>) {
    drop(Box::from_raw(ns as *const Namespace<'static> as *mut Namespace<'static>));
}

/// `d<digits>` <-> `e<digits>` at word boundaries: an isomorphic renaming of the generated defs.
fn map_names(text: &str, from: u8, to: u8) -> String {
    let b = text.as_bytes();
    let mut out = Vec::with_capacity(b.len());
    let word = |c: u8| c.is_ascii_alphanumeric() || c == b'_';
    let mut i = 0;
    while i < b.len() {
        if b[i] == from && (i == 0 || !word(b[i - 1])) && i + 1 < b.len() && b[i + 1].is_ascii_digit() {
            let mut j = i + 1;
            while j < b.len() && b[j].is_ascii_digit() {
                j += 1;
            }
            if j == b.len() || !word(b[j]) {
                out.push(to);
                out.extend_from_slice(&b[i + 1..j]);
                i = j;
                continue;
            }
        }
        out.push(b[i]);
        i += 1;
    }
    String::from_utf8(out).unwrap_or_default()
}

/// Same def names, different `is` wiring: every plain `d<i>` row gets a new list of supertypes
/// drawn from the core and the earlier `d<j>` (so the graph stays acyclic).
fn rewire(text: &str, rng: &mut Rng) -> String {
    let mut out = String::new();
    let mut earlier: Vec<String> = Vec::new();
    let mut levels: Vec<usize> = Vec::new();
    for line in text.lines() {
        let first = line.split(',').next().unwrap_or("");
        let plain = first.strip_prefix("^d").is_some_and(|r| !r.is_empty() && r.bytes().all(|c| c.is_ascii_digit()));
        if plain {
            let name = first[1..].to_string();
            // the `is` cell is the second cell: either empty or a bracketed list
            let rest = &line[first.len() + 1..];
            let after_is = if rest.starts_with('[') { rest.find(']').map_or(rest, |i| &rest[i + 1..]) } else { rest };
            let k = rng.range(1, 3);
            let mut is: Vec<String> = Vec::new();
            let eligible: Vec<usize> = (0..earlier.len()).filter(|j| levels[*j] < 6).collect();
            let mut level = 1;
            for _ in 0..k {
                let p = if eligible.is_empty() || rng.chance(1, 4) {
                    rng.pick_str(&["entity", "marker", "choice", "val"]).to_string()
                } else {
                    let j = eligible[rng.usize(eligible.len())];
                    level = level.max(levels[j] + 1);
                    earlier[j].clone()
                };
                if !is.contains(&p) {
                    is.push(p);
                }
            }
            levels.push(level);
            out.push_str(&format!("{first},[{}]{after_is}\n", is.iter().map(|s| format!("^{s}")).collect::<Vec<_>>().join(",")));
            earlier.push(name);
        } else {
            out.push_str(line);
            out.push('\n');
        }
    }
    out
}

fn canon_unrenamed(ans: &str) -> String {
    let mut v: Vec<String> = ans.split(',').map(|x| map_names(x, b'e', b'd')).collect();
    v.sort();
    v.join(",")
}

fn canon_sorted(ans: &str) -> String {
    let mut v: Vec<&str> = ans.split(',').collect();
    v.sort();
    v.join(",")
}

/// Pair scenario (one task, no concurrency): namespace A is queried first; then namespace B - the
/// same def names with a different `is` wiring - must answer exactly like an isomorphic copy of
/// itself whose defs are renamed (d<i> -> e<i>), which nothing keyed by names can confuse with A.
fn scenario_pair(defs_a: &str, defs_b: &str, ops: &[Op], slot: &Arc<StdMutex<Option<RunReport>>>) {
    let ns_a = make_ns(defs_a);
    for op in ops {
        let _ = answer(ns_a, op);
    }
    let ns_b = make_ns(defs_b);
    let b1: Vec<String> = ops.iter().map(|op| answer(ns_b, op)).collect();
    let renamed = map_names(defs_b, b'd', b'e');
    let ns_b2 = make_ns(&renamed);
    let mut report = RunReport::default();
    for (op, got) in ops.iter().zip(b1.iter()) {
        let rop = Op { q: op.q.clone(), a: map_names(&op.a, b'd', b'e'), b: map_names(&op.b, b'd', b'e'), rec: Vec::new() };
        let want = canon_unrenamed(&answer(ns_b2, &rop));
        let got = canon_sorted(got);
        report.answers += 1;
        report.answers_hash = mix(&[report.answers_hash, fnv1a(got.as_bytes())]);
        if got != want {
            report.mismatches.push(format!("{op:?} on a namespace built after another namespace with the same def names had been queried answered {got:?}; an isomorphic copy with renamed defs answers {want:?}"));
        }
    }
    unsafe {
        free_ns(ns_a);
        free_ns(ns_b);
        free_ns(ns_b2);
    }
    *slot.lock().unwrap() = Some(report);
}

/// The simulated system: one cold namespace shared by N threads; afterwards every answer is
/// compared with the answer of a separate, fresh, cold, single-threaded namespace asked that one
/// query only.
fn scenario(defs_text: &Arc<String>, threads: &Arc<Vec<Vec<Op>>>, slot: &Arc<StdMutex<Option<RunReport>>>) {
    let ns = make_ns(defs_text);
    let mut handles = Vec::new();
    for (ti, ops) in threads.iter().enumerate() {
        let ops = ops.clone();
        handles.push(shuttle::thread::spawn(move || -> Vec<(usize, usize, String)> {
            let mut out = Vec::new();
            for (oi, op) in ops.iter().enumerate() {
                out.push((ti, oi, answer(ns, op)));
                // a scheduling point between queries that is not a yield hint
                shuttle::thread::sleep(std::time::Duration::ZERO);
            }
            out
        }));
    }
    let mut got: Vec<(usize, usize, String)> = Vec::new();
    for h in handles {
        got.extend(h.join().expect("query thread panicked"));
    }
    // SAFETY: all threads have joined and every guard / borrowed answer has been rendered to text
    unsafe { free_ns(ns) };
    let mut report = RunReport::default();
    let mut cache: BTreeMap<String, String> = BTreeMap::new();
    let ref_grid: Grid = zinc_from_str(defs_text).ok().and_then(|v| Grid::try_from(&v).ok()).unwrap_or_default();
    for (ti, oi, ans) in &got {
        let op = &threads[*ti][*oi];
        let key = serde_json::to_string(op).unwrap();
        let expect = cache.entry(key).or_insert_with(|| {
            // a different instance, cold, single-threaded, asked this one query only
            let fresh: &'static Namespace<'static> = make_ns_of(&ref_grid);
            let a = answer(fresh, op);
            unsafe { free_ns(fresh) };
            a
        });
        report.answers += 1;
        report.answers_hash = mix(&[report.answers_hash, fnv1a(ans.as_bytes())]);
        if ans != expect {
            report.mismatches.push(format!("thread {ti} query {oi} {op:?}: shared warm/concurrent namespace answered {ans:?}, a fresh cold namespace answers {expect:?}"));
        } else if ans.starts_with("CONTEXT-HISTORY") {
            report.mismatches.push(format!("thread {ti} query {oi} {op:?}: {ans}"));
        }
    }
    *slot.lock().unwrap() = Some(report);
}

pub fn run_case(case: &Case) -> Outcome {
    let mut out = Outcome::default();
    let ex = execute(case);
    out.steps = ex.trace.len() as u64;
    let nthreads = threads_of(case).len();
    out.nontrivial = ex.switches > 0 || (nthreads == 1 && threads_of(case)[0].len() > 1);
    out.probe("fault:preemption-at-lock-operation", ex.switches);
    out.probe("sched:scheduling-points", ex.trace.len() as u64);
    let shards = case.extra_usize("shards").unwrap_or(4);
    out.probe(if shards <= 2 { "fault:forced-shard-collisions(2 shards)" } else { "sched:shards>2" }, 1);
    out.probe(if nthreads == 1 { "reach:sequential-history" } else { "reach:concurrent-run" }, 1);
    let sched = sched_of(case);
    out.probe(
        match sched.mode.as_str() {
            "pct" => "sched:pct",
            "replay" => "sched:replay",
            _ => "sched:random",
        },
        1,
    );
    let mut rendered = String::new();
    if let Some((msg, loc)) = &ex.panic {
        let (sig, detail) = if msg.contains("deadlock") {
            ("C14 deadlock".to_string(), format!("every live thread is blocked on a shard lock: {msg}"))
        } else if msg.contains("VERIF relationship query") {
            ("C14 non-termination has_relationship resolver-callbacks".to_string(), msg.clone())
        } else if msg.contains("max_steps") || msg.contains("exceeded") {
            ("C14 no progress within 10^6 scheduling steps".to_string(), msg.clone())
        } else {
            let inner = if loc.is_empty() { msg.clone() } else { loc.clone() };
            (format!("C14 panic {}", msg_class(&strip_task_prefix(&inner))), format!("{msg} [{loc}]"))
        };
        out.violate(sig, format!("{detail}; realised schedule of {} steps: {:?}", ex.trace.len(), &ex.trace[..ex.trace.len().min(200)]));
        rendered.push_str("panic");
    }
    if let Some(r) = &ex.report {
        out.accepted = true;
        if !r.mismatches.is_empty() {
            out.violate("C14 answer depends on history/schedule".to_string(), r.mismatches.join(" | "));
        }
        rendered.push_str(&format!("{} {}", r.answers, r.answers_hash));
    }
    out.fingerprint = mix(&[fnv1a(rendered.as_bytes()), fnv1a(format!("{:?}", ex.trace).as_bytes())]);
    // distinct = distinct (defs, threads, knobs, realised interleaving)
    let wl = serde_json::to_string(&(case.doc.as_str(), case.extra.get("threads"), case.extra.get("shards"), case.extra.get("hash_seed"))).unwrap_or_default();
    out.distinct_key = Some(mix(&[fnv1a(wl.as_bytes()), fnv1a(format!("{:?}", ex.trace).as_bytes())]));
    out
}

fn strip_task_prefix(s: &str) -> String {
    // "src/..rs:123 :: message" -> "src/..rs message"
    match s.split_once(" :: ") {
        Some((loc, m)) => format!("{} {}", loc_class(loc), m),
        None => s.to_string(),
    }
}

/// Makes a failing seeded case explicit: the realised schedule replaces the seed.
fn explicit(case: &Case) -> Case {
    let ex = execute(case);
    let mut c = case.clone();
    let mut s = sched_of(case);
    s.mode = "replay".into();
    s.trace = ex.trace;
    c.extra.insert("sched".into(), serde_json::to_value(&s).unwrap());
    c
}

// ---------------------------------------------------------------------------------------------

pub struct C14 {
    pub ctx: Ctx,
}

impl C14 {
    fn sizes(&self) -> (usize, usize, usize) {
        // (units, cases per unit, real-defs cases)
        match self.ctx.tier {
            Tier::Quick => (64, 1500, 48),
            Tier::Thorough => (640, 8000, 2000),
        }
    }

    /// deep-chain units (3 cases each)
    fn chain_units(&self) -> usize {
        match self.ctx.tier {
            Tier::Quick => 4,
            Tier::Thorough => 32,
        }
    }

    /// (pair units, cases per pair unit)
    fn pair_sizes(&self) -> (usize, usize) {
        match self.ctx.tier {
            Tier::Quick => (16, 150),
            Tier::Thorough => (64, 2000),
        }
    }

    /// (bulk units, cases per bulk unit)
    fn bulk_sizes(&self) -> (usize, usize) {
        match self.ctx.tier {
            Tier::Quick => (16, 2),
            Tier::Thorough => (64, 12),
        }
    }
}

fn gen_case(seed: u64, real_defs: Option<&(String, Vec<String>)>) -> Case {
    let rng = Rng::new(seed);
    let mut wl = rng.fork("workload");
    let mut sc = rng.fork("schedule");
    let mut kn = rng.fork("knobs");
    let (text, syms) = match real_defs {
        Some((t, s)) => (t.clone(), s.clone()),
        None => gen_taxonomy(&mut wl),
    };
    let n_hot = wl.range(1, 4);
    let hot: Vec<String> = (0..n_hot).map(|_| syms[wl.usize(syms.len())].clone()).collect();
    // histories (one thread, any order / warm-up) and schedules (2-16 threads)
    // one case in ten is a storm: 9-16 threads that all ask the same kind of query at once (whatever
    // is counted, pooled or rationed per namespace is then used by many callers at the same instant)
    let storm: Option<&str> = if wl.chance(1, 10) { Some(*wl.pick(QUERIES)) } else { None };
    let nthreads = if storm.is_some() { wl.range(9, 16) } else { *wl.pick(&[1usize, 2, 2, 2, 3, 3, 4, 4, 6, 8, 12, 16]) };
    let max_ops = if nthreads > 8 { 3 } else { 8 };
    let mut threads: Vec<Vec<Op>> = Vec::new();
    for _ in 0..nthreads {
        let k = wl.range(1, max_ops);
        threads.push(
            (0..k)
                .map(|_| match storm {
                    Some(q) => gen_op_of(&mut wl, q, &syms, &hot),
                    None => gen_op(&mut wl, &syms, &hot),
                })
                .collect(),
        );
    }
    if nthreads == 1 {
        // sequential history: a warm-up prefix followed by a permutation of a query set
        let k = wl.range(2, 12);
        let mut ops: Vec<Op> = (0..k).map(|_| gen_op(&mut wl, &syms, &hot)).collect();
        wl.shuffle(&mut ops);
        threads[0].extend(ops);
    }
    // near-duplicate subjects: the same tag names with one marker turned into a value tag (or
    // back), placed on any thread - whatever is remembered per "shape" must not leak between them
    let mut siblings: Vec<Op> = Vec::new();
    for ops in &threads {
        for op in ops {
            if !op.rec.is_empty() && matches!(op.q.as_str(), "reflect" | "def_of_dict" | "protos" | "filter") && wl.chance(1, 2) {
                let mut sib = op.clone();
                let i = wl.usize(sib.rec.len());
                let name = sib.rec[i].split('=').next().unwrap_or("").to_string();
                if !sib.rec[i].contains("=@") && !name.is_empty() {
                    sib.rec[i] = if sib.rec[i].contains('=') { name } else { format!("{name}=$n/a") };
                    siblings.push(sib);
                }
            }
        }
    }
    for sib in siblings {
        let t = wl.usize(threads.len());
        let at = wl.usize(threads[t].len() + 1);
        threads[t].insert(at, sib);
    }
    let mut c = Case::new("C14", "namespace", text.as_bytes());
    c.extra.insert("threads".into(), serde_json::to_value(&threads).unwrap());
    c.extra.insert("shards".into(), (*kn.pick(&[2u64, 2, 4, 16, 64])).into());
    c.extra.insert("hash_seed".into(), kn.next_u64().into());
    let mode = if sc.chance(1, 2) { "random" } else { "pct" };
    let s = Sched { mode: mode.into(), seed: sc.next_u64(), depth: sc.range(1, 5), trace: vec![] };
    c.extra.insert("sched".into(), serde_json::to_value(&s).unwrap());
    c
}

/// Bulk sweep: every thread walks over (nearly) all symbols of a large namespace - the shipped
/// defs or a generated taxonomy of several hundred defs - so that whatever bounds, evicts or
/// rebuilds the lazy caches at some size is driven past that size while other threads are
/// between their insert and their read.
fn gen_bulk_case(seed: u64, real_defs: Option<&(String, Vec<String>)>) -> Case {
    let rng = Rng::new(seed);
    let mut wl = rng.fork("workload");
    let mut sc = rng.fork("schedule");
    let mut kn = rng.fork("knobs");
    let (text, mut syms) = match real_defs {
        Some((t, s)) if wl.chance(1, 2) => (t.clone(), s.clone()),
        _ => {
            let n = *wl.pick(&[150usize, 300, 600, 1100]);
            gen_taxonomy_n(&mut wl, n)
        }
    };
    for i in 0..syms.len() / 10 {
        syms.push(format!("notADef{i}"));
    }
    let nthreads = *wl.pick(&[2usize, 2, 3, 4, 8]);
    let kinds: Vec<&str> = {
        let all = ["supertypes_of", "inheritance", "all_supertypes_of", "fits_entity", "fits_marker", "tags", "is", "fits"];
        let k = wl.range(1, 2);
        (0..k).map(|_| *wl.pick(&all)).collect()
    };
    let mut threads: Vec<Vec<Op>> = Vec::new();
    for _ in 0..nthreads {
        let mut order = syms.clone();
        wl.shuffle(&mut order);
        let take = order.len() * wl.range(60, 100) / 100;
        threads.push(
            order[..take]
                .iter()
                .map(|sym| {
                    let q = *wl.pick(&kinds);
                    Op { q: q.to_string(), a: sym.clone(), b: if q == "fits" { "entity".into() } else { String::new() }, rec: Vec::new() }
                })
                .collect(),
        );
    }
    let mut c = Case::new("C14", "namespace", text.as_bytes());
    c.extra.insert("threads".into(), serde_json::to_value(&threads).unwrap());
    c.extra.insert("shards".into(), (*kn.pick(&[2u64, 4, 16, 64])).into());
    c.extra.insert("hash_seed".into(), kn.next_u64().into());
    c.extra.insert("bulk".into(), true.into());
    let mode = if sc.chance(1, 2) { "random" } else { "pct" };
    let s = Sched { mode: mode.into(), seed: sc.next_u64(), depth: sc.range(1, 5), trace: vec![] };
    c.extra.insert("sched".into(), serde_json::to_value(&s).unwrap());
    c
}

/// Deep single-inheritance chain (legal, linear in cost): the deepest def is asked first, cold, so
/// anything that recurses once per level of the `is` chain meets a chain of thousands of levels.
fn gen_chain_case(seed: u64) -> Case {
    let rng = Rng::new(seed);
    let mut wl = rng.fork("workload");
    let mut kn = rng.fork("knobs");
    let n = *wl.pick(&[400usize, 3000, 20000]);
    let mut text = String::from("ver:\"3.0\"\ndef,is\n^marker,\n^val,\n^entity,[^marker]\n^choice,[^marker]\n^d0,[^entity]\n");
    for i in 1..n {
        text.push_str(&format!("^d{i},[^d{}]\n", i - 1));
    }
    let leaf = format!("d{}", n - 1);
    let mid = format!("d{}", n / 2);
    let nthreads = wl.range(1, 3);
    let mut threads: Vec<Vec<Op>> = Vec::new();
    for _ in 0..nthreads {
        let mut ops = Vec::new();
        for _ in 0..wl.range(1, 4) {
            // upward queries only: they are linear in the depth of the chain
            let q = *wl.pick(&["inheritance", "all_supertypes_of", "fits", "fits_entity", "supertypes_of"]);
            let a = match wl.below(4) {
                0 => mid.clone(),
                1 => "d0".to_string(),
                _ => leaf.clone(),
            };
            ops.push(Op { q: q.to_string(), a, b: if q == "fits" { "d0".into() } else { String::new() }, rec: Vec::new() });
        }
        threads.push(ops);
    }
    let mut c = Case::new("C14", "namespace", text.as_bytes());
    c.extra.insert("threads".into(), serde_json::to_value(&threads).unwrap());
    c.extra.insert("shards".into(), (*kn.pick(&[2u64, 16, 64])).into());
    c.extra.insert("hash_seed".into(), kn.next_u64().into());
    c.extra.insert("bulk".into(), true.into());
    c.extra.insert("stack_mb".into(), 8u64.into());
    // liveness budget linear in the depth: 200 scheduling steps per level and query
    c.extra.insert("max_steps".into(), (200 * n as u64 * 12 + 1_000_000).into());
    c.extra.insert("sched".into(), serde_json::to_value(&Sched { mode: "random".into(), seed: kn.next_u64(), depth: 1, trace: vec![] }).unwrap());
    c
}

/// Pair case: A, then B = A rewired (same names), sequential symbol queries over every def.
fn gen_pair_case(seed: u64) -> Case {
    let rng = Rng::new(seed);
    let mut wl = rng.fork("workload");
    let mut kn = rng.fork("knobs");
    let (text_a, syms) = gen_taxonomy(&mut wl);
    let text_b = rewire(&text_a, &mut wl.fork("rewire"));
    const PAIR_QUERIES: &[&str] = &["supertypes_of", "all_supertypes_of", "inheritance", "fits", "fits_marker", "fits_val", "fits_choice", "fits_entity", "subtypes_of", "all_subtypes_of", "has_subtype", "is", "tag_on", "choices_for"];
    let mut ops: Vec<Op> = Vec::new();
    for _ in 0..wl.range(8, 40) {
        let q = *wl.pick(PAIR_QUERIES);
        let a = syms[wl.usize(syms.len())].clone();
        let b = if q == "fits" { syms[wl.usize(syms.len())].clone() } else { String::new() };
        ops.push(Op { q: q.to_string(), a, b, rec: Vec::new() });
    }
    let mut c = Case::new("C14", "namespace-pair", text_a.as_bytes());
    c.extra.insert("pair_b".into(), hex(text_b.as_bytes()).into());
    c.extra.insert("threads".into(), serde_json::to_value(vec![ops]).unwrap());
    c.extra.insert("shards".into(), (*kn.pick(&[2u64, 4, 16])).into());
    c.extra.insert("hash_seed".into(), kn.next_u64().into());
    c.extra.insert("sched".into(), serde_json::to_value(&Sched { mode: "random".into(), seed: kn.next_u64(), depth: 1, trace: vec![] }).unwrap());
    c
}

fn real_defs(ctx: &Ctx) -> Option<(String, Vec<String>)> {
    let text = std::fs::read_to_string(ctx.repo.join("tests/defs/defs.zinc")).ok()?;
    let v = zinc_from_str(&text).ok()?;
    let g = Grid::try_from(&v).ok()?;
    let syms: Vec<String> = g.rows.iter().filter_map(|r| r.get_symbol("def").map(|s| s.value.clone())).collect();
    Some((text, syms))
}

impl Engine for C14 {
    fn prop(&self) -> &'static str {
        "C14"
    }

    fn units(&self) -> Vec<UnitSpec> {
        let (n, _, _) = self.sizes();
        let mut u: Vec<UnitSpec> = (0..n as u64).map(|i| UnitSpec { id: i, name: format!("search:{i}"), isolated: false, exhaustive: false }).collect();
        u.push(UnitSpec { id: n as u64, name: "real-defs".into(), isolated: false, exhaustive: false });
        for i in 0..self.bulk_sizes().0 as u64 {
            u.push(UnitSpec { id: n as u64 + 1 + i, name: format!("bulk:{i}"), isolated: false, exhaustive: false });
        }
        let base = n as u64 + 1 + self.bulk_sizes().0 as u64;
        for i in 0..self.pair_sizes().0 as u64 {
            u.push(UnitSpec { id: base + i, name: format!("pair:{i}"), isolated: false, exhaustive: false });
        }
        let base = base + self.pair_sizes().0 as u64;
        for i in 0..self.chain_units() as u64 {
            u.push(UnitSpec { id: base + i, name: format!("chain:{i}"), isolated: false, exhaustive: false });
        }
        u
    }

    fn cases(&self, unit: &UnitSpec) -> Box<dyn Iterator<Item = Case> + '_> {
        let (_, per, real) = self.sizes();
        let uname = unit.name.clone();
        if unit.name == "real-defs" {
            let defs = real_defs(&self.ctx);
            let seed = mix(&[self.ctx.seed, fnv1a(b"C14-real")]);
            return Box::new((0..real as u64).filter_map(move |sub| {
                let d = defs.as_ref()?;
                let mut c = gen_case(mix(&[seed, sub]), Some(d));
                c.origin = format!("{uname} sub={sub}");
                Some(c)
            }));
        }
        if unit.name.starts_with("chain:") {
            let seed = mix(&[self.ctx.seed, fnv1a(b"C14-chain"), unit.id]);
            return Box::new((0..3u64).map(move |sub| {
                let mut c = gen_chain_case(mix(&[seed, sub]));
                c.origin = format!("{uname} sub={sub}");
                c
            }));
        }
        if unit.name.starts_with("pair:") {
            let seed = mix(&[self.ctx.seed, fnv1a(b"C14-pair"), unit.id]);
            return Box::new((0..self.pair_sizes().1 as u64).map(move |sub| {
                let mut c = gen_pair_case(mix(&[seed, sub]));
                c.origin = format!("{uname} sub={sub}");
                c
            }));
        }
        if unit.name.starts_with("bulk:") {
            let defs = real_defs(&self.ctx);
            let seed = mix(&[self.ctx.seed, fnv1a(b"C14-bulk"), unit.id]);
            return Box::new((0..self.bulk_sizes().1 as u64).map(move |sub| {
                let mut c = gen_bulk_case(mix(&[seed, sub]), defs.as_ref());
                c.origin = format!("{uname} sub={sub}");
                c
            }));
        }
        let unit_seed = mix(&[self.ctx.seed, fnv1a(b"C14-search"), unit.id]);
        Box::new((0..per as u64).map(move |sub| {
            let mut c = gen_case(mix(&[unit_seed, sub]), None);
            c.origin = format!("{uname} sub={sub}");
            c
        }))
    }

    fn run(&self, case: &Case) -> Outcome {
        let out = run_case(case);
        out
    }

    fn explicit(&self, case: &Case) -> Case {
        explicit(case)
    }

    fn isolate_every(&self, unit: &UnitSpec) -> Option<u64> {
        // answers must not depend on namespaces queried earlier in the same process
        if unit.name == "real-defs" {
            // the shipped defs after generated taxonomies in one process: whatever is resolved once
            // per process must not be taken from the wrong namespace
            Some(4)
        } else if unit.name.starts_with("bulk:") || unit.name.starts_with("chain:") {
            None
        } else if unit.name.starts_with("pair:") {
            Some(8)
        } else {
            Some(128)
        }
    }

    fn rule(&self) -> String {
        "seeded search: (taxonomy: generated acyclic defs with diamonds, conjuncts, feature keys, undefined supertypes, choices, tagOn, a transitive relationship; or the shipped defs.zinc) x (1-16 threads x 1-20 queries biased to overlapping symbols; 1 thread = sequential history with warm-up prefix and permutation) x (scheduler: seeded random or PCT depth 1-5 owning every shard-lock operation) x (shard count 2/4/16/64, hasher seed); oracle: every answer equals a fresh cold single-threaded namespace's, no panic, no deadlock, bounded steps; non-trivial = at least one context switch between runnable threads happened (or a multi-query sequential history); distinct = distinct (defs, threads, knobs, realised interleaving) - the realised schedule is recorded at every scheduling point and hashed".into()
    }

    fn components(&self) -> (Vec<&'static str>, Vec<&'static str>) {
        (
            vec!["defs::Namespace (make, all queries, both caches)", "defs::Reflection", "filter IsA / Relation eval", "dashmap 6.1.0 sharding, hashing, raw table, entry/ref guards"],
            vec!["dashmap shard RwLock (shuttle-scheduled, same admission policy)", "shard count (available_parallelism)", "getrandom (hash keys)", "thread scheduler (shuttle coroutines under SimScheduler)"],
        )
    }
}

fn engine_for(prop: &str, ctx: Ctx) -> Box<dyn Engine> {
    match prop {
        "C14" => Box::new(C14 { ctx }),
        other => {
            eprintln!("nssim: unknown property {other}");
            std::process::exit(2);
        }
    }
}

fn run_explicit(case: &Case, _ctx: &Ctx) -> Outcome {
    run_case(case)
}

/// Process-wide lazily built tables of the library (units, zones) are built here, on the main
/// thread, before any case runs: their construction creates HashMaps, which advances the
/// per-thread RandomState counter of whichever thread happens to run it - done inside a case it
/// would make that case's hash seeds (and with them the order of its lock operations) depend on
/// whether an earlier case of the process had already done it.
fn warm_up() {
    let _ = libhaystack::units::get_unit("kW");
    let _ = zinc_from_str("[1kW, 2021-01-01T00:00:00-05:00 New_York, 2021-01-01T00:00:00Z UTC, C(1,2), `u`, @r \"d\"]");
    let _ = Filter::try_from("a == 1kW and b->c");
}

fn main() {
    warm_up();
    std::env::remove_var("SHUTTLE_RANDOM_SEED");
    cli::main_with(engine_for, run_explicit);
}
